pub struct DerivedHelpGroup<G1, G2> {
    pub g1: G1,
    pub g2: G2,
}

impl<G1: crate::service::Help, G2: crate::service::Help> crate::service::Help for DerivedHelpGroup<G1, G2> {

//@ #[verifier::external_body]   // NOT VERIFIED: sum of the members' command counts (no contract bounds them; overflow of usize is not excluded)
    fn command_count() -> usize {
        <G1 as crate::service::Help>::command_count()
        + <G2 as crate::service::Help>::command_count()
    }

    fn list_commands<W: crate::verif_specs::embedded_io::Write<Error = E>, E: crate::verif_specs::embedded_io::Error>(
        writer: &mut crate::writer::Writer<'_, W, E>,
    ) -> Result<(), E> {
        let mut has_output = false;
        if <G1 as crate::service::Help>::command_count() > 0 {
            if has_output {
                writer.writeln_str("")?;
            }
            <G1 as crate::service::Help>::list_commands(writer)?;
            has_output = true;
        }
        if <G2 as crate::service::Help>::command_count() > 0 {
            if has_output {
                writer.writeln_str("")?;
            }
            <G2 as crate::service::Help>::list_commands(writer)?;
            has_output = true;
        }
        Ok(())
    }

    fn command_help<
        W: crate::verif_specs::embedded_io::Write<Error = E>,
        E: crate::verif_specs::embedded_io::Error,
        F: FnMut(&mut crate::writer::Writer<'_, W, E>) -> Result<(), E>,
    >(
        parent: &mut F,
        command: crate::command::RawCommand<'_>,
        writer: &mut crate::writer::Writer<'_, W, E>,
    ) -> Result<(), crate::service::HelpError<E>> {
        (match <G1 as crate::service::Help>::command_help(parent, command.clone(), writer) {
            Ok(__v) => Ok(__v),
            Err(err) => match err {
            // only unknown command means that next group should be asked, other errors are reported
            crate::service::HelpError::UnknownCommand => <G2 as crate::service::Help>::command_help(parent, command.clone(), writer),
            err => Err(err),
        },
        })?;
        Ok(())
    }
}
