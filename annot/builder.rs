use core::{convert::Infallible, fmt::Debug};

use crate::verif_specs::embedded_io::{Error, Write};

use crate::{buffer::Buffer, cli::Cli, writer::EmptyWriter};

pub const DEFAULT_CMD_LEN: usize = 40;
pub const DEFAULT_HISTORY_LEN: usize = 100;
pub const DEFAULT_PROMPT: &'static str = "$ ";

//@ #[verifier::reject_recursive_types(E)]
pub struct CliBuilder<W: Write<Error = E>, E: Error, CommandBuffer: Buffer, HistoryBuffer: Buffer> {
    pub(crate) command_buffer: CommandBuffer,
    pub(crate) history_buffer: HistoryBuffer,
    pub(crate) prompt: &'static str,
    pub(crate) writer: W,
}

//@ #[verifier::external]   // NOT MIRRORED: Debug formatting glue
impl<W, E, CommandBuffer, HistoryBuffer> Debug for CliBuilder<W, E, CommandBuffer, HistoryBuffer>
where
    W: Write<Error = E>,
    E: Error,
    CommandBuffer: Buffer,
    HistoryBuffer: Buffer,
{
    fn fmt(&self, f: &mut core::fmt::Formatter<'_>) -> core::fmt::Result {
        f.debug_struct("CliBuilder")
            .field("command_buffer", &self.command_buffer.as_slice())
            .field("history_buffer", &self.history_buffer.as_slice())
            .finish()
    }
}

impl<W, E, CommandBuffer, HistoryBuffer> CliBuilder<W, E, CommandBuffer, HistoryBuffer>
where
    W: Write<Error = E>,
    E: Error,
    CommandBuffer: Buffer,
    HistoryBuffer: Buffer,
{
    pub fn build(self) -> Result<Cli<W, E, CommandBuffer, HistoryBuffer>, E> {
        Cli::from_builder(self)
    }

    pub fn command_buffer<B: Buffer>(
        self,
        command_buffer: B,
    ) -> CliBuilder<W, E, B, HistoryBuffer> {
        CliBuilder {
            command_buffer,
            history_buffer: self.history_buffer,
            writer: self.writer,
            prompt: self.prompt,
        }
    }

    pub fn history_buffer<B: Buffer>(
        self,
        history_buffer: B,
    ) -> CliBuilder<W, E, CommandBuffer, B> {
        CliBuilder {
            command_buffer: self.command_buffer,
            history_buffer,
            writer: self.writer,
            prompt: self.prompt,
        }
    }

    pub fn prompt(self, prompt: &'static str) -> Self {
        CliBuilder {
            command_buffer: self.command_buffer,
            history_buffer: self.history_buffer,
            writer: self.writer,
            prompt,
        }
    }

    pub fn writer<T: Write<Error = TE>, TE: Error>(
        self,
        writer: T,
    ) -> CliBuilder<T, TE, CommandBuffer, HistoryBuffer> {
        CliBuilder {
            command_buffer: self.command_buffer,
            history_buffer: self.history_buffer,
            writer,
            prompt: self.prompt,
        }
    }
}

