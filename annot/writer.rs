use core::{convert::Infallible, fmt::Debug};

use crate::verif_specs::embedded_io::{Error, ErrorType, Write};

use crate::codes;

//@ use crate::verif_specs::embedded_io::Ev;
//@ #[verifier::reject_recursive_types(E)]
pub struct Writer<'a, W: Write<Error = E>, E: Error> {
    pub last_bytes: [u8; 2],
    pub dirty: bool,
    pub writer: &'a mut W,
//@ /// GHOST: length of the sink's event log when this Writer was created (erased at run time)
//@ pub base: Ghost<int>,
}

//@ #[verifier::external]   // NOT MIRRORED: Debug formatting glue
impl<W: Write<Error = E>, E: Error> Debug for Writer<'_, W, E> {
    fn fmt(&self, f: &mut core::fmt::Formatter<'_>) -> core::fmt::Result {
        f.debug_struct("Writer")
            .field("last_bytes", &self.last_bytes)
            .field("dirty", &self.dirty)
            .finish()
    }
}

impl<'a, W: Write<Error = E>, E: Error> Writer<'a, W, E> {
//@ /// event log / failure count of the wrapped sink
//@ pub open spec fn evs(&self) -> Seq<Ev> { self.writer.evs() }
//@ pub open spec fn errs(&self) -> nat { self.writer.errs() }
//@ /// state of the wrapped sink once this Writer is dropped
//@ #[verifier::prophetic]
//@ pub open spec fn fin_evs(&self) -> Seq<Ev> { final(self.writer).evs() }
//@ #[verifier::prophetic]
//@ pub open spec fn fin_errs(&self) -> nat { final(self.writer).errs() }
//@ /// bytes sent through this Writer since it was created
//@ pub open spec fn out(&self) -> Seq<u8> { ev_bytes_from(self.writer.evs(), self.base@) }
//@ /// only writes (no flush) went to the sink since this Writer was created
//@ pub open spec fn only_writes(&self) -> bool {
//@     forall|i: int| self.base@ <= i < self.writer.evs().len() ==> self.writer.evs()[i] is W
//@ }
//@ /// representation invariant: `dirty` says exactly that the output so far does not end with a line break
//@ pub open spec fn wf(&self) -> bool {
//@     &&& 0 <= self.base@ <= self.writer.evs().len()
//@     &&& self.only_writes()
//@     &&& self.dirty <==> (self.out().len() > 0 && self.out().last() != 0x0A)
//@     &&& self.dirty ==> self.last_bytes@[1] == self.out().last()
//@     // C06/C13: nothing written yet means no sink operation at all; output that ends with a line break leaves the
//@     // terminal at the start of an empty line (the last write is CR LF)
//@     &&& self.out().len() == 0 ==> self.writer.evs().len() == self.base@
//@     &&& (self.out().len() > 0 && self.out().last() == 0x0A) ==> is_fresh(term_run(self.writer.evs()))
//@ }
    pub fn new(writer: &'a mut W) -> Self {
//@ ensures r.wf(), r.evs() == old(writer).evs(), r.errs() == old(writer).errs(), r.out() == Seq::<u8>::empty(),   // [C13,~C06,~C14,~C15]
//@     r.base@ == old(writer).evs().len(),
//@     r.fin_evs() == final(writer).evs(), r.fin_errs() == final(writer).errs(),   // [C13]
//@ ---
//@ proof { assert(writer.evs().skip(writer.evs().len() as int) =~= Seq::<Ev>::empty()); }
        Self {
            last_bytes: [0; 2],
            dirty: false,
//@ base: Ghost(writer.evs().len() as int),
            writer,
        }
    }

    pub(crate) fn is_dirty(&self) -> bool {
//@ ensures
//@     // C13: a line break is needed iff something was written and it did not end with one
//@     self.wf() ==> r == (self.out().len() > 0 && self.out().last() != 0x0A),   // [C13]
        self.dirty
            && (self.last_bytes[0] != codes::CARRIAGE_RETURN
                || self.last_bytes[1] != codes::LINE_FEED)
    }

    pub fn write_str(&mut self, mut text: &str) -> Result<(), E> {
//@ requires old(self).wf(),
//@ ensures
//@     final(self).fin_evs() == old(self).fin_evs(), final(self).fin_errs() == old(self).fin_errs(), final(self).base == old(self).base,
//@     // C13: the text reaches the sink unchanged except that each LF becomes CR LF
//@     r is Ok ==> final(self).wf() && final(self).out() == old(self).out() + lf_to_crlf(text.spec_bytes()),   // [C13,~C06,~C14,~C15]
//@     // C14: a failed sink operation is reported, success means no failure
//@     r is Ok ==> final(self).errs() == old(self).errs(),   // [C14]
//@     r is Err ==> final(self).errs() > old(self).errs(),   // [C14]
//@     r is Ok ==> final(self).evs().len() >= old(self).evs().len()
//@         && final(self).evs().subrange(0, old(self).evs().len() as int) == old(self).evs()
//@         && (forall|i: int| 0 <= i < old(self).evs().len() ==> #[trigger] final(self).evs()[i] == old(self).evs()[i]),
//@ ---
//@ let ghost text0 = text.spec_bytes();
//@ let ghost out0 = self.out();
//@ let ghost evs0 = self.evs();
//@ proof { broadcast use axiom_str_len_bound; broadcast use lemma_str_view_bytes; reveal_strlit("\r\n"); }
        while !text.is_empty() {
//@ invariant_except_break
//@     self.out() + lf_to_crlf(text.spec_bytes()) == out0 + lf_to_crlf(text0),   // [C13]
//@ invariant
//@     self.wf(), self.base == old(self).base,
//@     self.fin_evs() == old(self).fin_evs(), self.fin_errs() == old(self).fin_errs(),
//@     self.errs() == old(self).errs(),
//@     self.evs().len() >= evs0.len(), self.evs().subrange(0, evs0.len() as int) == evs0,
//@ ensures
//@     self.wf(), self.base == old(self).base, self.errs() == old(self).errs(),
//@     self.fin_evs() == old(self).fin_evs(), self.fin_errs() == old(self).fin_errs(),
//@     self.out() == out0 + lf_to_crlf(text0),   // [C13]
//@     self.evs().len() >= evs0.len(), self.evs().subrange(0, evs0.len() as int) == evs0,
//@ decreases text.spec_bytes().len(),
//@ ---
//@ proof { broadcast use axiom_str_len_bound; broadcast use lemma_str_view_bytes; }
            if let Some(pos) = crate::verif_specs::position_eq(text.as_bytes(), codes::LINE_FEED) {
                // SAFETY: pos is inside text slice
//@ let ghost tb = text.spec_bytes();
//@ let ghost evs1 = self.evs();
//@ proof {   // [C02]
//@     broadcast use axiom_str_len_bound; broadcast use lemma_str_view_bytes;
//@     lemma_ascii_boundaries(tb, pos as int);
//@     is_char_boundary_start_end_of_seq(tb);
//@ }
                let line = unsafe { text.get_unchecked(..pos) };

                self.writer.write_str(line)?;
                self.writer.write_str(codes::CRLF)?;
                // SAFETY: pos is index of existing element so pos + 1 in worst case will be
                // outside of slice by 1, which is safe (will give empty slice as result)
                text = unsafe { text.get_unchecked(pos + 1..) };
                self.dirty = false;
                self.last_bytes = [0; 2];
//@ proof {   // [C13]
//@     lemma_crlf_split(tb, pos as int);
//@     lemma_ev_bytes_from_push(evs1, self.base@, Ev::W(tb.subrange(0, pos as int)));
//@     lemma_ev_bytes_from_push(evs1.push(Ev::W(tb.subrange(0, pos as int))), self.base@, Ev::W(codes::CRLF.spec_bytes()));
//@     assert(codes::CRLF.spec_bytes() =~= seq![0x0Du8, 0x0Au8]) by { reveal_strlit("\r\n"); lemma_crlf_bytes(); }
//@     assert(self.out() =~= ev_bytes_from(evs1, self.base@) + tb.subrange(0, pos as int) + seq![0x0Du8, 0x0Au8]);
//@     assert(self.evs().subrange(0, evs0.len() as int) =~= evs0);
//@     // C06: the last write is CR LF
//@     let e1 = evs1.push(Ev::W(tb.subrange(0, pos as int)));
//@     lemma_term_push(e1, Ev::W(codes::CRLF.spec_bytes()));
//@     lemma_term_w_controls(term_run(e1));
//@     assert(ends_crlf(codes::CRLF.spec_bytes()));
//@ }
            } else {
//@ let ghost evs1 = self.evs();
//@ let ghost tb = text.spec_bytes();
                self.writer.write_str(text)?;
                self.dirty = true;

                if text.len() > 1 {
                    self.last_bytes[0] = text.as_bytes()[text.len() - 2];
                    self.last_bytes[1] = text.as_bytes()[text.len() - 1];
                } else {
                    self.last_bytes[0] = self.last_bytes[1];
                    self.last_bytes[1] = text.as_bytes()[text.len() - 1];
                }
//@ proof {   // [C13]
//@     lemma_crlf_no_lf(tb);
//@     lemma_ev_bytes_from_push(evs1, self.base@, Ev::W(tb));
//@     assert(self.out() =~= ev_bytes_from(evs1, self.base@) + tb);
//@     assert(self.evs().subrange(0, evs0.len() as int) =~= evs0);
//@ }
                break;
            }
        }
//@ proof {   // [C13]
//@     if text.spec_bytes().len() == 0 { assert(lf_to_crlf(text.spec_bytes()) =~= Seq::<u8>::empty()); }
//@     assert forall|i: int| 0 <= i < evs0.len() implies #[trigger] self.evs()[i] == evs0[i] by {
//@         assert(self.evs().subrange(0, evs0.len() as int)[i] == self.evs()[i]);
//@     }
//@ }
        Ok(())
    }

    pub fn writeln_str(&mut self, text: &str) -> Result<(), E> {
//@ requires old(self).wf(),
//@ ensures
//@     final(self).fin_evs() == old(self).fin_evs(), final(self).fin_errs() == old(self).fin_errs(), final(self).base == old(self).base,
//@     // C13: as write_str, followed by one line break
//@     r is Ok ==> final(self).wf() && final(self).out() == old(self).out() + lf_to_crlf(text.spec_bytes()) + seq![0x0Du8, 0x0Au8],   // [C13,~C06,~C14,~C15]
//@     r is Ok ==> final(self).evs().len() >= old(self).evs().len()
//@         && (forall|i: int| 0 <= i < old(self).evs().len() ==> #[trigger] final(self).evs()[i] == old(self).evs()[i]),
//@     r is Ok ==> final(self).errs() == old(self).errs(),   // [C14]
//@     r is Err ==> final(self).errs() > old(self).errs(),   // [C14]
        // text can contain line feeds, they have to be converted as in write_str
        self.write_str(text)?;
//@ let ghost evs1 = self.evs();
        self.writer.write_str(codes::CRLF)?;
//@ proof {   // [C13]
//@     lemma_crlf_bytes();
//@     lemma_ev_bytes_from_push(evs1, self.base@, Ev::W(codes::CRLF.spec_bytes()));
//@     lemma_term_push(evs1, Ev::W(codes::CRLF.spec_bytes()));
//@     lemma_term_w_controls(term_run(evs1));
//@     assert(ends_crlf(codes::CRLF.spec_bytes()));
//@ }
        self.dirty = false;
        Ok(())
    }

    pub fn write_list_element(
        &mut self,
        name: &str,
        description: &str,
        longest_name: usize,
    ) -> Result<(), E> {
//@ requires old(self).wf(),
//@ ensures
//@     final(self).fin_evs() == old(self).fin_evs(), final(self).fin_errs() == old(self).fin_errs(), final(self).base == old(self).base,
//@     r is Ok ==> final(self).wf() && final(self).errs() == old(self).errs(),   // [C14,C13,~C06,~C15]
//@     r is Err ==> final(self).errs() > old(self).errs(),   // [C14]
//@     r is Ok ==> final(self).evs().len() >= old(self).evs().len()
//@         && (forall|i: int| 0 <= i < old(self).evs().len() ==> #[trigger] final(self).evs()[i] == old(self).evs()[i]),   // [C13,~C14]
        self.write_str("  ")?;
        self.write_str(name)?;
        if name.len() < longest_name {
            for _i in 0..longest_name - name.len() {
//@ invariant self.wf(), self.base == old(self).base, self.errs() == old(self).errs(),
//@     self.fin_evs() == old(self).fin_evs(), self.fin_errs() == old(self).fin_errs(),
//@     self.evs().len() >= old(self).evs().len(),
//@     forall|i: int| 0 <= i < old(self).evs().len() ==> #[trigger] self.evs()[i] == old(self).evs()[i],
                self.write_str(" ")?;
            }
        }
        self.write_str("  ")?;
        self.writeln_str(description)?;

        Ok(())
    }

    pub fn write_title(&mut self, title: &str) -> Result<(), E> {
//@ requires old(self).wf(),
//@ ensures
//@     final(self).fin_evs() == old(self).fin_evs(), final(self).fin_errs() == old(self).fin_errs(), final(self).base == old(self).base,
//@     r is Ok ==> final(self).wf() && final(self).out() == old(self).out() + lf_to_crlf(title.spec_bytes()) && final(self).errs() == old(self).errs(),   // [C13,C14,~C06,~C15]
//@     r is Err ==> final(self).errs() > old(self).errs(),   // [C14]
//@     r is Ok ==> final(self).evs().len() >= old(self).evs().len()
//@         && (forall|i: int| 0 <= i < old(self).evs().len() ==> #[trigger] final(self).evs()[i] == old(self).evs()[i]),   // [C13,~C14]
        //TODO: add formatting
        self.write_str(title)?;
        Ok(())
    }
}

pub(crate) trait WriteExt: ErrorType {
//@ /// event log / failure count of the sink (defined as Write::evs / Write::errs by the blanket impl)
//@ spec fn x_evs(&self) -> Seq<Ev>;
//@ spec fn x_errs(&self) -> nat;
    /// Write and flush all given bytes
    fn flush_bytes(&mut self, bytes: &[u8]) -> Result<(), Self::Error>;
//@ ensures
//@     r is Ok ==> final(self).x_evs() == old(self).x_evs().push(Ev::W(bytes@)).push(Ev::F) && final(self).x_errs() == old(self).x_errs(),   // [C15]
//@     r is Err ==> final(self).x_errs() > old(self).x_errs(),   // [C14]

    fn flush_str(&mut self, text: &str) -> Result<(), Self::Error>;
//@ ensures
//@     r is Ok ==> final(self).x_evs() == old(self).x_evs().push(Ev::W(text.spec_bytes())).push(Ev::F) && final(self).x_errs() == old(self).x_errs(),   // [C15]
//@     r is Err ==> final(self).x_errs() > old(self).x_errs(),   // [C14]

    fn write_bytes(&mut self, bytes: &[u8]) -> Result<(), Self::Error>;
//@ ensures
//@     r is Ok ==> final(self).x_evs() == old(self).x_evs().push(Ev::W(bytes@)) && final(self).x_errs() == old(self).x_errs(),
//@     r is Err ==> final(self).x_errs() > old(self).x_errs(),   // [C14]

    fn write_str(&mut self, text: &str) -> Result<(), Self::Error>;
//@ ensures
//@     r is Ok ==> final(self).x_evs() == old(self).x_evs().push(Ev::W(text.spec_bytes())) && final(self).x_errs() == old(self).x_errs(),
//@     r is Err ==> final(self).x_errs() > old(self).x_errs(),   // [C14]
}

impl<W: Write> WriteExt for W {
//@ open spec fn x_evs(&self) -> Seq<Ev> { self.evs() }
//@ open spec fn x_errs(&self) -> nat { self.errs() }
    fn flush_bytes(&mut self, bytes: &[u8]) -> Result<(), Self::Error> {
        self.write_bytes(bytes)?;
        self.flush()
    }

    fn flush_str(&mut self, text: &str) -> Result<(), Self::Error> {
        self.flush_bytes(text.as_bytes())
    }

    fn write_bytes(&mut self, bytes: &[u8]) -> Result<(), Self::Error> {
        self.write_all(bytes)
    }

    fn write_str(&mut self, text: &str) -> Result<(), Self::Error> {
        self.write_bytes(text.as_bytes())
    }
}

#[derive(Debug)]
pub struct EmptyWriter;

impl ErrorType for EmptyWriter {
    type Error = Infallible;
}



//@ /// what any sequence of calls to the Writer API guarantees (ASSUMED of application code that is handed a Writer:
//@ /// command handlers, `Cli::write` closures, derive-generated help printers)
//@ #[verifier::prophetic]
//@ pub open spec fn writer_api_only<W: Write<Error = E>, E: Error>(w: &mut Writer<'_, W, E>) -> bool {
//@     &&& final(w).base == w.base
//@     &&& final(w).fin_evs() == w.fin_evs() && final(w).fin_errs() == w.fin_errs()
//@     &&& final(w).errs() >= w.errs()
//@     // as long as no sink operation failed the Writer stays well-formed and the sink log only grows
//@     &&& final(w).errs() == w.errs() ==> final(w).wf() && final(w).evs().len() >= w.evs().len()
//@         && (forall|i: int| 0 <= i < w.evs().len() ==> #[trigger] final(w).evs()[i] == w.evs()[i])
//@ }
