pub trait Buffer {
    fn as_slice(&self) -> &[u8];

    fn as_slice_mut(&mut self) -> &mut [u8];

    #[allow(unused_variables)]
    fn grow(&mut self, new_size: usize) {
        // noop, can't grow
    }

    fn is_empty(&self) -> bool {
        self.as_slice().is_empty()
    }

    fn len(&self) -> usize {
        self.as_slice().len()
    }
}

impl<const SIZE: usize> Buffer for [u8; SIZE] {
    fn as_slice(&self) -> &[u8] {
        self
    }

    fn as_slice_mut(&mut self) -> &mut [u8] {
        self
    }
}

impl Buffer for &mut [u8] {
    fn as_slice(&self) -> &[u8] {
        self
    }

    fn as_slice_mut(&mut self) -> &mut [u8] {
        self
    }
}
