pub trait Buffer {
//@ /// the bytes of the buffer (model of the user-supplied storage); its length never changes
//@ spec fn bytes(&self) -> Seq<u8>;
    fn as_slice(&self) -> &[u8];
//@ ensures r@ == self.bytes(),

    fn as_slice_mut(&mut self) -> &mut [u8];
//@ ensures r@ == old(self).bytes(), final(self).bytes() == final(r)@,

    #[allow(unused_variables)]
    fn grow(&mut self, new_size: usize) {
        // noop, can't grow
    }

    fn is_empty(&self) -> bool {
//@ ensures r == (self.bytes().len() == 0),
        self.as_slice().is_empty()
    }

    fn len(&self) -> usize {
//@ ensures r == self.bytes().len(), self.bytes().len() <= isize::MAX,
//@ ---
//@ proof { broadcast use axiom_slice_len_bound; }
        self.as_slice().len()
    }
}

impl<const SIZE: usize> Buffer for [u8; SIZE] {
//@ open spec fn bytes(&self) -> Seq<u8> { self@ }
    fn as_slice(&self) -> &[u8] {
        self
    }

    fn as_slice_mut(&mut self) -> &mut [u8] {
        self
    }
}

impl Buffer for &mut [u8] {
//@ open spec fn bytes(&self) -> Seq<u8> { (**self)@ }
    fn as_slice(&self) -> &[u8] {
        self
    }

    fn as_slice_mut(&mut self) -> &mut [u8] {
        self
    }
}
