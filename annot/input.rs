
use crate::{codes, utf8::Utf8Accum};

#[derive(Clone, Copy, Debug, Eq, PartialEq)]
pub enum ControlInput {
    Backspace,
    Down,
    Enter,
    Back,
    Forward,
    Tab,
    Up,
}

#[derive(Debug, Eq, PartialEq)]
pub enum Input<'a> {
    Control(ControlInput),

    /// Input is a single utf8 char.
    /// Slice is used to skip conversion from char to byte slice
    Char(&'a str),
}

use crate::verif_specs::Flags; // bitflags! { struct Flags: u8 { const CSI_STARTED = 1; } } (model, rule D8)

#[derive(Debug)]
pub struct InputGenerator {
    flags: Flags,
    last_byte: u8,
    utf8: Utf8Accum,
}

impl InputGenerator {
//@ /// abstraction function: decoder state of C04
//@ pub closed spec fn view(&self) -> DecState {
//@     let csi = self.flags.has(Flags::CSI_STARTED);
//@     DecState {
//@         csi,
//@         prev_esc: !csi && self.last_byte == 0x1B,
//@         pend: if !csi && (self.last_byte == 0x0D || self.last_byte == 0x0A) { Some(self.last_byte) } else { None },
//@         acc: self.utf8.pending(),
//@     }
//@ }
//@ pub closed spec fn wf(&self) -> bool { self.utf8.wf() }
    pub fn new() -> Self {
//@ ensures r.wf(), r.view() == dec_init(),   // [~C04,C02,~C03,~C17]
        // last byte matters only when its Esc, \r or \n, so can set it to just 0
        Self {
            flags: Flags::empty(),
            last_byte: 0,
            utf8: Utf8Accum::default(),
        }
    }

    pub fn accept(&mut self, byte: u8) -> Option<Input<'_>> {
//@ requires old(self).wf(),
//@ ensures
//@     final(self).wf(),   // [C02,~C03,~C04,~C17]
//@     // C04: on every byte of a stream of key units the real decoder makes exactly the step of the abstract decoder
//@     dec_good(old(self).view(), byte) ==>
//@         final(self).view() == dec_step(old(self).view(), byte).0 && ev_of(r) == dec_step(old(self).view(), byte).1,   // [C04,~C01,~C05,~C10,~C11,~C17]
//@     // C02: whatever the bytes, a character event carries exactly one well-formed scalar, and the accumulator
//@     // follows the ideal one (malformed octets dropped, resynchronisation on the next lead/ASCII byte)
//@     r matches Some(Input::Char(c)) ==> c@.len() == 1 && valid_utf8(c.spec_bytes()),   // [C02]
//@     final(self).view().acc == dec_step(old(self).view(), byte).0.acc,   // [C02]
//@     // C01: only a line terminator byte can produce Enter
//@     r matches Some(Input::Control(ControlInput::Enter)) ==> byte == 0x0D || byte == 0x0A,   // [C01]
//@     r matches Some(Input::Char(c)) ==> nul_free(c.spec_bytes()),
//@     // shape facts used by Cli
//@     !old(self).view().csi && byte >= 0x20 && !(old(self).view().prev_esc && byte == 0x5B) ==> !(r matches Some(Input::Control(_))),  // [C04,~C01,~C05,~C10,~C11,~C17]
        let last_byte = self.last_byte;
        self.last_byte = byte;
        if self.flags.contains(Flags::CSI_STARTED) {
            match self.process_csi(byte) { Some(__c) => Some(Input::Control(__c)), None => None }
        } else if last_byte == codes::ESCAPE && byte == b'[' {
            self.flags.set(Flags::CSI_STARTED, true);
            None
        } else {
            self.process_single(byte, last_byte)
        }
    }

    fn process_csi(&mut self, byte: u8) -> Option<ControlInput> {
//@ requires old(self).flags.has(Flags::CSI_STARTED),
//@ ensures
//@     final(self).last_byte == old(self).last_byte, final(self).utf8 == old(self).utf8,
//@     final(self).flags.has(Flags::CSI_STARTED) == !(0x40 <= byte <= 0x7E),   // [C04,~C01,~C05,~C10,~C11,~C17]
//@     ctl_ev(r) == (if 0x40 <= byte <= 0x7E { csi_final(byte) } else { None }),   // [C04,~C01,~C05,~C10,~C11,~C17]
        // skip all parameter bytes and process only last byte in CSI sequence
        if (0x40..=0x7E).contains(&byte) {
            self.flags.set(Flags::CSI_STARTED, false);
            let control = match byte {
                b'A' => ControlInput::Up,
                b'B' => ControlInput::Down,
                b'C' => ControlInput::Forward,
                b'D' => ControlInput::Back,
                _ => return None,
            };
            Some(control)
        } else {
            None
        }
    }

    fn process_single(&mut self, byte: u8, last_byte: u8) -> Option<Input<'_>> {
//@ requires old(self).utf8.wf(), !old(self).flags.has(Flags::CSI_STARTED), old(self).last_byte == byte,
//@ ensures
//@     final(self).utf8.wf(),   // [C02,C03]
//@     final(self).flags == old(self).flags,
//@     dec_good(single_s0(last_byte, old(self).utf8.pending()), byte) ==>
//@         final(self).view() == dec_step(single_s0(last_byte, old(self).utf8.pending()), byte).0
//@         && ev_of(r) == dec_step(single_s0(last_byte, old(self).utf8.pending()), byte).1,   // [C04,~C01,~C05,~C10,~C11,~C17]
//@     final(self).utf8.pending() == dec_step(single_s0(last_byte, old(self).utf8.pending()), byte).0.acc,   // [C02]
//@     r matches Some(Input::Char(c)) ==> c@.len() == 1 && valid_utf8(c.spec_bytes()),   // [C02]
//@     byte >= 0x20 ==> !(r matches Some(Input::Control(_))),   // [C04,~C01,~C05,~C10,~C11,~C17]
//@     r matches Some(Input::Control(ControlInput::Enter)) ==> byte == 0x0D || byte == 0x0A,   // [C01]
//@     r matches Some(Input::Char(c)) ==> nul_free(c.spec_bytes()),
        let control = match byte {
            codes::BACKSPACE => ControlInput::Backspace,

            // ignore \r if \n already received (and converted to Enter)
            codes::CARRIAGE_RETURN if last_byte != codes::LINE_FEED => ControlInput::Enter,

            // ignore \n if \r already received (and converted to Enter)
            codes::LINE_FEED if last_byte != codes::CARRIAGE_RETURN => ControlInput::Enter,

            codes::CARRIAGE_RETURN | codes::LINE_FEED => {
                // second half of \r\n or \n\r pair, it is consumed together with the first half,
                // so it must not suppress line terminator that follows
                self.last_byte = 0;
                return None;
            }

            codes::TABULATION => ControlInput::Tab,

            // process only non control ascii chars (and utf8)
            byte if byte >= 0x20 => return match self.utf8.push_byte(byte) { Some(__c) => Some(Input::Char(__c)), None => None },

            _ => return None,
        };
        Some(Input::Control(control))
    }
}


//@ /// decoder state outside a CSI sequence, as seen by process_single
//@ pub open spec fn single_s0(last_byte: u8, acc: Seq<u8>) -> DecState {
//@     DecState { csi: false, prev_esc: false,
//@         pend: if last_byte == 0x0D || last_byte == 0x0A { Some(last_byte) } else { None }, acc }
//@ }
//@ pub open spec fn ctl_ev(c: Option<ControlInput>) -> Option<KeyEv> {
//@     match c {
//@         Some(ControlInput::Backspace) => Some(KeyEv::Backspace),
//@         Some(ControlInput::Tab) => Some(KeyEv::Tab),
//@         Some(ControlInput::Enter) => Some(KeyEv::Enter),
//@         Some(ControlInput::Up) => Some(KeyEv::Up),
//@         Some(ControlInput::Down) => Some(KeyEv::Down),
//@         Some(ControlInput::Forward) => Some(KeyEv::Right),
//@         Some(ControlInput::Back) => Some(KeyEv::Left),
//@         None => None,
//@     }
//@ }
//@ pub open spec fn ev_of(i: Option<Input<'_>>) -> Option<KeyEv> {
//@     match i {
//@         Some(Input::Control(c)) => ctl_ev(Some(c)),
//@         Some(Input::Char(s)) => Some(KeyEv::Char(s.spec_bytes())),
//@         None => None,
//@     }
//@ }