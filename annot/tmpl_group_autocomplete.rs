pub struct DerivedGroup<G1, G2> {
    pub g1: G1,
    pub g2: G2,
}

impl<G1: crate::service::Autocomplete, G2: crate::service::Autocomplete> crate::service::Autocomplete for DerivedGroup<G1, G2> {
//@ /// the names of a group are the names of its (visible) members, in declaration order
//@ open spec fn names() -> Seq<Seq<u8>> { G1::names() + G2::names() }
    fn autocomplete(
        request: crate::autocomplete::Request<'_>,
        autocompletion: &mut crate::autocomplete::Autocompletion<'_>,
    ) {
//@ let ghost cands0 = autocompletion.cands@;
//@ let ghost w = request.name();
//@ proof {   // [C11]
//@     lemma_conts_concat(G1::names(), G2::names(), w);
//@     assert(cands0 + (conts(G1::names(), w) + conts(G2::names(), w)) =~= (cands0 + conts(G1::names(), w)) + conts(G2::names(), w));
//@ }
        <G1 as crate::service::Autocomplete>::autocomplete(request.clone(), autocompletion);
        <G2 as crate::service::Autocomplete>::autocomplete(request.clone(), autocompletion);
    }
}
