pub struct DerivedCommand;

impl crate::service::Autocomplete for DerivedCommand {
//@ /// the names of the declaration: arbitrary (uninterpreted), so what is proved holds for every `#[derive(Command)]`
//@ open spec fn names() -> Seq<Seq<u8>> { derived_names() }
    fn autocomplete(
        request: crate::autocomplete::Request<'_>,
        autocompletion: &mut crate::autocomplete::Autocompletion<'_>,
    ) {
//@ let ghost a0 = *autocompletion;
//@ let ghost cands0 = autocompletion.cands@;
//@ let ghost w = request.name();
//@ proof { broadcast use axiom_str_len_bound; broadcast use lemma_str_view_bytes; }
        let NAMES: &[&str] = crate::verif_specs::derived_command_names();
//@ proof {
//@     assert(derived_names().subrange(0, 0) =~= Seq::<Seq<u8>>::empty());
//@     assert(cands0 + conts(Seq::<Seq<u8>>::empty(), w) =~= cands0);
//@ }
        if let crate::autocomplete::Request::CommandName(name) = request {
            for __i in 0..NAMES.len() {
//@ for_iter it
//@ invariant
//@     it.iter.end == NAMES@.len(), NAMES@.len() == derived_names().len(), name.spec_bytes() == w,
//@     forall|i: int| 0 <= i < NAMES@.len() ==> (#[trigger] NAMES@[i]).spec_bytes() == derived_names()[i],
//@     // C11: the continuations of exactly the names seen so far that start with the word have been merged
//@     autocompletion.cands@ == cands0 + conts(derived_names().subrange(0, __i as int), w),   // [C11]
//@     ac_inv(a0.state(), cands0, a0.room()) ==> ac_inv(autocompletion.state(), autocompletion.cands@, a0.room()),   // [C11]
//@     autocompletion.wf(), autocompletion.room() == a0.room(), autocompletion.fin() == a0.fin(),
//@     autocompletion.buf().len() == a0.buf().len(),
//@     a0.state().auto is Some ==> autocompletion.state().auto is Some,
//@     autocompletion.state().auto is None ==> autocompletion.buf() == a0.buf(),
                let n = &NAMES[__i];
//@ proof {
//@     let names = derived_names();
//@     let pre = names.subrange(0, __i as int + 1);
//@     assert(pre.drop_last() =~= names.subrange(0, __i as int));
//@     assert(pre.last() == names[__i as int]);
//@ }
                if (crate::verif_specs::str_starts_with(n, name)) {
                    // SAFETY: n starts with name, so name cannot be longer
//@ proof {   // [C02]
//@     // the typed word is a well-formed prefix of the well-formed name: it ends on a character boundary of the name
//@     broadcast use axiom_str_len_bound; broadcast use lemma_str_view_bytes;
//@     lemma_str_view_bytes(*n); lemma_str_view_bytes(name);
//@     assert(n.spec_bytes().subrange(0, w.len() as int) == w);
//@     lemma_valid_prefix_is_boundary(n.spec_bytes(), w.len() as int);
//@     is_char_boundary_start_end_of_seq(n.spec_bytes());
//@     assert(is_char_boundary((*n).spec_bytes(), name.spec_bytes().len() as int));
//@     assert(is_char_boundary((*n).spec_bytes(), (*n).spec_bytes().len() as int));
//@     assert(name.spec_bytes().len() <= (*n).spec_bytes().len());
//@ }
                    let autocompleted = unsafe { n.get_unchecked(name.len()..) };
                    autocompletion.merge_autocompletion(autocompleted)
                }
            }
//@ proof { assert(derived_names().subrange(0, NAMES@.len() as int) =~= derived_names()); }
        }
    }
}
