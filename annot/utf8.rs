#[derive(Debug)]
pub struct Utf8Accum {
    /// Buffer for utf8 octets aggregation until full utf-8 char is received
    buffer: [u8; 4],

    /// How many more utf8 octets are expected
    expected: u8,

    /// How many utf8 octets are in the buffer
    partial: u8,
}

impl Default for Utf8Accum {
    fn default() -> Self {
//@ ensures r.wf(), r.pending() == Seq::<u8>::empty(),  // [C02,C17,~C04]
        Utf8Accum { buffer: [0; 4], expected: 0, partial: 0 }
    }
}

impl Utf8Accum {
//@ /// octets of the scalar in progress (abstraction function)
//@ pub closed spec fn pending(&self) -> Seq<u8> {
//@     if self.expected > 0 { self.buffer@.subrange(0, self.partial as int) } else { Seq::empty() }
//@ }
//@ /// representation invariant, index part: the octet counters stay inside the 4-byte buffer
//@ pub closed spec fn wf_idx(&self) -> bool {
//@     self.expected > 0 ==> (1 <= self.partial < 4 && self.partial + self.expected <= 4)
//@ }
//@ /// representation invariant, UTF-8 part: the pending octets are a proper prefix of a well-formed scalar
//@ pub closed spec fn wf_seq(&self) -> bool {
//@     self.expected > 0 ==> (self.partial >= 1 && self.partial + self.expected == lead_width(self.buffer@[0])
//@         && pending_ok(self.buffer@.subrange(0, self.partial as int)))
//@ }
//@ pub open spec fn wf(&self) -> bool { self.wf_idx() && self.wf_seq() }
    pub fn push_byte(&mut self, byte: u8) -> Option<&str> {
//@ requires old(self).wf(),
//@ ensures
//@     final(self).wf_idx(),   // [C03]
//@     final(self).wf_seq(),   // [C02]
//@     // soundness: whatever is handed out is one well-formed scalar
//@     r is Some ==> r.unwrap()@.len() == 1 && valid_utf8(r.unwrap().spec_bytes()),  // [C02]
//@     // exact behaviour on every byte, malformed input included: invalid octets are dropped together with
//@     // the pending ones and a following lead/ASCII byte restarts
//@     final(self).pending() == acc_step(old(self).pending(), byte).0,   // [C02]
//@     (r is Some) == (acc_step(old(self).pending(), byte).1 is Some),   // [C02]
//@     r is Some ==> r.unwrap().spec_bytes() == acc_step(old(self).pending(), byte).1.unwrap(),  // [C02]
//@     // completeness on well-formed input: every octet that continues a well-formed scalar is accepted and
//@     // the last one yields the scalar
//@     good_step(old(self).pending(), byte) ==> final(self).pending() == acc_step(old(self).pending(), byte).0
//@         && (r is Some) == (acc_step(old(self).pending(), byte).1 is Some)
//@         && (r is Some ==> r.unwrap().spec_bytes() == acc_step(old(self).pending(), byte).1.unwrap()),  // [C04,C17]
        // Plain and stupid utf-8 validation
        // Bytes are supposed to be human input so it's okay to be not blazing fast

        if byte >= 0xF5 {
            // 0xF5..=0xFF never appear in well-formed utf-8
            self.expected = 0;
            return None;
        } else if byte >= 0xF0 {
            // this is first octet of 4-byte value
            self.buffer[0] = byte;
            self.partial = 1;
            self.expected = 3;
        } else if byte >= 0xE0 {
            // this is first octet of 3-byte value
            self.buffer[0] = byte;
            self.partial = 1;
            self.expected = 2;
        } else if byte >= 0xC2 {
            // this is first octet of 2-byte value
            self.buffer[0] = byte;
            self.partial = 1;
            self.expected = 1;
        } else if byte >= 0xC0 {
            // 0xC0 and 0xC1 can only start an overlong encoding
            self.expected = 0;
        } else if byte >= 0x80 {
            if self.expected > 0 {
                if self.partial == 1 {
                    // second octet is restricted for some first octets, otherwise
                    // overlong encodings, surrogates and values above U+10FFFF get through
                    let first = self.buffer[0];
                    if (first == 0xE0 && byte < 0xA0)
                        || (first == 0xED && byte >= 0xA0)
                        || (first == 0xF0 && byte < 0x90)
                        || (first == 0xF4 && byte >= 0x90)
                    {
                        self.expected = 0;
                        return None;
                    }
                }
                // this is one of other octets of multi-byte value
                self.buffer[self.partial as usize] = byte;
                self.partial += 1;
                self.expected -= 1;
                if self.expected == 0 {
                    let len = self.partial as usize;
//@ proof {
//@     lemma_complete_scalar_valid(self.buffer@.subrange(0, len as int));   // [C02]
//@ }
                    // SAFETY: we checked previously that buffer contains valid utf8
                    unsafe {
                        return Some(core::str::from_utf8_unchecked(&self.buffer[..len]));
                    }
                }
            }
        } else {
            self.expected = 0;
            self.buffer[0] = byte;
//@ proof {
//@     lemma_ascii_valid(byte);
//@     assert(self.buffer@.subrange(0, 1) =~= seq![byte]);
//@ }
            // SAFETY: ascii chars are all valid utf-8 chars
            unsafe {
                return Some(core::str::from_utf8_unchecked(&self.buffer[..1]));
            }
        }

        None
    }
}

