pub const BACKSPACE: u8 = 0x08;
pub const TABULATION: u8 = 0x09;
pub const LINE_FEED: u8 = 0x0A;
pub const CARRIAGE_RETURN: u8 = 0x0D;
pub const ESCAPE: u8 = 0x1B;

pub const CRLF: &'static str = "\r\n";

// escape sequence reference: https://ecma-international.org/publications-and-standards/standards/ecma-48
#[verifier::external_body] pub exec const CURSOR_FORWARD: &'static [u8] ensures CURSOR_FORWARD@ == seq![0x1Bu8, 0x5Bu8, 0x43u8] { b"\x1B[C" }
#[verifier::external_body] pub exec const CURSOR_BACKWARD: &'static [u8] ensures CURSOR_BACKWARD@ == seq![0x1Bu8, 0x5Bu8, 0x44u8] { b"\x1B[D" }
#[verifier::external_body] pub exec const CLEAR_LINE: &'static [u8] ensures CLEAR_LINE@ == seq![0x1Bu8, 0x5Bu8, 0x32u8, 0x4Bu8] { b"\x1B[2K" }
#[verifier::external_body] pub exec const INSERT_CHAR: &'static [u8] ensures INSERT_CHAR@ == seq![0x1Bu8, 0x5Bu8, 0x40u8] { b"\x1B[@" }
#[verifier::external_body] pub exec const DELETE_CHAR: &'static [u8] ensures DELETE_CHAR@ == seq![0x1Bu8, 0x5Bu8, 0x50u8] { b"\x1B[P" }
