use crate::{
    token::{Tokens, TokensIter},
    utils,
};

#[derive(Debug, Eq)]
pub enum Arg<'a> {
    /// Used to represent `--`.
    /// After double dash all other args
    /// will always be `ArgToken::Value`
    DoubleDash,

    /// Long option. Only name is stored (without `--`)
    ///
    /// In `get --config normal -f file -vs`
    /// `--config` will be a long option with name `config`
    LongOption(&'a str),

    /// Short option. Only single UTF-8 char is stored (without `-`).
    ///
    /// In `get --config normal -f file -vs`
    /// `-f` and `-vs` will be short options.
    /// `v` and `s` are treated as written separately (as '-v -s`)
    ShortOption(char),

    /// Value of an option or an argument.
    ///
    /// In `get --config normal -v file`
    /// `normal` and `file` will be a value
    Value(&'a str),
}

//@ /// spec-level item an `Arg` stands for
//@ pub open spec fn arg_item(a: Arg<'_>) -> ArgItem {
//@     match a {
//@         Arg::DoubleDash => ArgItem::DoubleDash,
//@         Arg::LongOption(n) => ArgItem::Long(n.spec_bytes()),
//@         Arg::ShortOption(c) => ArgItem::Short(c),
//@         Arg::Value(v) => ArgItem::Value(v.spec_bytes()),
//@     }
//@ }
//@ pub open spec fn arg_eq(a: &Arg<'_>, b: &Arg<'_>) -> bool {
//@     match (*a, *b) {
//@         (Arg::DoubleDash, Arg::DoubleDash) => true,
//@         (Arg::LongOption(x), Arg::LongOption(y)) => x@ == y@,
//@         (Arg::ShortOption(x), Arg::ShortOption(y)) => x == y,
//@         (Arg::Value(x), Arg::Value(y)) => x@ == y@,
//@         _ => false,
//@     }
//@ }
//@ impl<'a> vstd::std_specs::cmp::PartialEqSpecImpl for Arg<'a> {
//@     open spec fn obeys_eq_spec() -> bool { true }
//@     open spec fn eq_spec(&self, other: &Self) -> bool { arg_eq(self, other) }
//@ }
impl<'a> PartialEq for Arg<'a> {
    fn eq(&self, other: &Self) -> bool {
        match (self, other) {
            (Arg::DoubleDash, Arg::DoubleDash) => true,
            (Arg::LongOption(x), Arg::LongOption(y)) => *x == *y,
            (Arg::ShortOption(x), Arg::ShortOption(y)) => *x == *y,
            (Arg::Value(x), Arg::Value(y)) => *x == *y,
            _ => false,
        }
    }
}

#[derive(Debug, Eq)]
pub struct ArgList<'a> {
    tokens: Tokens<'a>,
}

impl<'a> Clone for ArgList<'a> {
    fn clone(&self) -> Self {
//@ ensures r == *self,   // [C08,~C01,~C07,~C12]
        ArgList { tokens: self.tokens.clone() }
    }
}

impl<'a> ArgList<'a> {
//@ /// the tokens after the command name
//@ pub closed spec fn tokens(&self) -> Seq<Seq<u8>> { self.tokens.view() }
    /// Create new arg list from given tokens
    pub fn new(tokens: Tokens<'a>) -> Self {
//@ ensures r.tokens() == tokens.view(),   // [C08,~C01,~C07,~C12]
        Self { tokens }
    }

    pub fn args(&self) -> ArgsIter<'a> {
//@ ensures r.view() == classify(self.tokens(), false), r.rest_tokens() == self.tokens(), !r.in_cluster(),   // [C08,~C01,~C07,~C12]
        ArgsIter::new(self.tokens.iter())
    }
}

impl PartialEq for ArgList<'_> {
    #[verifier::external_body]
    fn eq(&self, other: &Self) -> bool {
        unimplemented!() // NOT MIRRORED: self.args().eq(other.args())
    }
}

#[derive(Debug)]
pub struct ArgsIter<'a> {
    values_only: bool,

    /// Short options (utf8 chars) that
    /// are left from previous iteration
    leftover: &'a str,

    tokens: TokensIter<'a>,
}

impl<'a> ArgsIter<'a> {
//@ /// the items still to be yielded: the rest of a short-option cluster, then the classified remaining tokens
//@ pub closed spec fn view(&self) -> Seq<ArgItem> {
//@     shorts(self.leftover@) + classify(self.tokens.view(), self.values_only)
//@ }
//@ pub closed spec fn rest_tokens(&self) -> Seq<Seq<u8>> { self.tokens.view() }
//@ pub closed spec fn in_cluster(&self) -> bool { self.leftover@.len() > 0 }
//@ pub closed spec fn values_only_spec(&self) -> bool { self.values_only }
    fn new(tokens: TokensIter<'a>) -> Self {
//@ ensures r.view() == classify(tokens.view(), false), r.rest_tokens() == tokens.view(), !r.in_cluster(),   // [C08,~C01,~C07,~C12]
//@ ---
//@ proof { reveal_strlit(""); assert(shorts(""@) =~= Seq::<ArgItem>::empty()); }
        Self {
            values_only: false,
            leftover: "",
            tokens,
        }
    }

    /// Converts whats left in this iterator back to `ArgList`
    ///
    /// If iterator was in the middle of iterating of collapsed
    /// short options (like `-vhs`), non iterated options are discarded
    pub fn into_args(self) -> ArgList<'a> {
//@ ensures r.tokens() == self.rest_tokens(),   // [C08,~C01,~C07,~C12]
        ArgList::new(self.tokens.into_tokens())
    }
}

impl<'a> ArgsIter<'a> {
    pub fn next(&mut self) -> Option<Arg<'a>> {
//@ ensures
//@     // C08: yields exactly the next item of the specified classification, and keeps the rest
//@     old(self).view().len() == 0 ==> r is None && final(self).view() == old(self).view(),   // [C08]
//@     old(self).view().len() > 0 ==> r is Some && arg_item(r.unwrap()) == old(self).view()[0]
//@         && final(self).view() == old(self).view().drop_first(),   // [C08]
//@     // bookkeeping used by help.rs / derive code: tokens are consumed one at a time, clusters are finished first
//@     old(self).in_cluster() ==> final(self).rest_tokens() == old(self).rest_tokens(),
//@     !old(self).in_cluster() && old(self).rest_tokens().len() > 0 ==> final(self).rest_tokens() == old(self).rest_tokens().drop_first(),
//@     !old(self).in_cluster() && old(self).rest_tokens().len() == 0 ==> final(self).rest_tokens() == old(self).rest_tokens() && r is None,
//@     r matches Some(Arg::Value(_)) ==> !final(self).in_cluster(),
//@     r matches Some(Arg::Value(v)) ==> !old(self).in_cluster() && old(self).rest_tokens().len() > 0
//@         && v.spec_bytes() == old(self).rest_tokens()[0],   // [C08]
//@ ---
//@ let ghost v0 = self.view();
//@ let ghost toks0 = self.tokens.view();
//@ proof {
//@     broadcast use lemma_str_view_bytes;
//@     if self.leftover@.len() > 0 { lemma_shorts_pop(self.leftover@); }
//@     else { assert(shorts(self.leftover@) =~= Seq::<ArgItem>::empty()); }
//@ }
        if let Some((opt, leftover)) = utils::char_pop_front(self.leftover) {
            self.leftover = leftover;
//@ proof { assert(v0.drop_first() =~= self.view()); }
            return Some(Arg::ShortOption(opt));
        }

        let raw = self.tokens.next()?;
        let bytes = raw.as_bytes();
//@ proof {
//@     broadcast use axiom_str_len_bound;
//@     encode_utf8_valid_utf8(raw@);
//@     assert(toks0.len() > 0 && raw.spec_bytes() == toks0[0] && self.tokens.view() == toks0.drop_first());
//@     reveal_with_fuel(classify, 2);
//@ }

        if self.values_only {
//@ proof { assert(v0.drop_first() =~= self.view()); }
            return Some(Arg::Value(raw));
        }

        let token = if bytes.len() > 1 && bytes[0] == b'-' {
            if bytes[1] == b'-' {
                if bytes.len() == 2 {
                    self.values_only = true;
//@ proof { assert(v0.drop_first() =~= self.view()); }
                    Arg::DoubleDash
                } else {
//@ proof {
//@     lemma_ascii_boundaries(raw.spec_bytes(), 0);
//@     lemma_ascii_boundaries(raw.spec_bytes(), 1);
//@     is_char_boundary_start_end_of_seq(raw.spec_bytes());
//@     assert(v0.drop_first() =~= self.view());
//@ }
                    Arg::LongOption(unsafe { raw.get_unchecked(2..) })
                }
            } else {
//@ proof {
//@     lemma_ascii_boundaries(raw.spec_bytes(), 0);
//@     is_char_boundary_start_end_of_seq(raw.spec_bytes());
//@     valid_utf8_split(raw.spec_bytes(), 1);
//@     let rest = raw.spec_bytes().subrange(1, raw.spec_bytes().len() as int);
//@     assert(rest.len() > 0);
//@     assert(decode_utf8(rest).len() > 0);
//@     lemma_shorts_pop(decode_utf8(rest));
//@     broadcast use lemma_str_view_bytes;
//@ }
                let (opt, leftover) =
                    unsafe { utils::char_pop_front(raw.get_unchecked(1..)).unwrap_unchecked() };
                self.leftover = leftover;
//@ proof { assert(v0.drop_first() =~= self.view()); }

                return Some(Arg::ShortOption(opt));
            }
        } else {
//@ proof { assert(v0.drop_first() =~= self.view()); }
            Arg::Value(raw)
        };

        Some(token)
    }
}

#[derive(Debug)]
pub struct FromArgumentError<'a> {
    pub value: &'a str,
    pub expected: &'static str,
}

pub trait FromArgument<'a> {
    fn from_arg(arg: &'a str) -> Result<Self, FromArgumentError<'a>>
    where
        Self: Sized;
}

impl<'a> FromArgument<'a> for &'a str {
    fn from_arg(arg: &'a str) -> Result<Self, FromArgumentError<'a>> {
        Ok(arg)
    }
}


