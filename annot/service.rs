use crate::verif_specs::embedded_io::Write;

use crate::{arguments::FromArgumentError, cli::CliHandle, command::RawCommand};

#[cfg(feature = "autocomplete")]
use crate::autocomplete::{Autocompletion, Request};

#[cfg(feature = "help")]
use crate::writer::Writer;

#[derive(Debug)]
pub enum ProcessError<'a, E: crate::verif_specs::embedded_io::Error> {
    ParseError(ParseError<'a>),
    WriteError(E),
}

#[derive(Debug)]
#[non_exhaustive]
pub enum ParseError<'a> {
    MissingRequiredArgument {
        /// Name of the argument. For example `<FILE>`, `-f <FILE>`, `--file <FILE>`
        name: &'a str,
    },

    ParseValueError {
        value: &'a str,
        expected: &'static str,
    },

    UnexpectedArgument {
        value: &'a str,
    },

    UnexpectedLongOption {
        name: &'a str,
    },

    UnexpectedShortOption {
        name: char,
    },

    UnknownCommand,
}

//@ #[verifier::external]   // NOT MIRRORED: From conversion glue (used by derive output and `?` in application code)
impl<'a> From<FromArgumentError<'a>> for ParseError<'a> {
    fn from(error: FromArgumentError<'a>) -> Self {
        Self::ParseValueError {
            value: error.value,
            expected: error.expected,
        }
    }
}

//@ #[verifier::external]   // NOT MIRRORED: From conversion glue (used by derive output and `?` in application code)
impl<E: crate::verif_specs::embedded_io::Error> From<E> for ProcessError<'_, E> {
    fn from(value: E) -> Self {
        Self::WriteError(value)
    }
}

//@ #[verifier::external]   // NOT MIRRORED: From conversion glue (used by derive output and `?` in application code)
impl<'a, E: crate::verif_specs::embedded_io::Error> From<ParseError<'a>> for ProcessError<'a, E> {
    fn from(value: ParseError<'a>) -> Self {
        Self::ParseError(value)
    }
}

#[derive(Debug)]
pub enum HelpError<E: crate::verif_specs::embedded_io::Error> {
    WriteError(E),
    UnknownCommand,
}

//@ // the conversion `?` applies in the code emitted by derive(Command): a sink error becomes WriteError (verified, and
//@ // known to callers through vstd's FromSpec)
//@ impl<E: crate::verif_specs::embedded_io::Error> vstd::std_specs::convert::FromSpecImpl<E> for HelpError<E> {
//@     open spec fn obeys_from_spec() -> bool { true }
//@     open spec fn from_spec(v: E) -> Self { HelpError::WriteError(v) }
//@ }
impl<E: crate::verif_specs::embedded_io::Error> From<E> for HelpError<E> {
    fn from(value: E) -> Self {
        Self::WriteError(value)
    }
}

pub trait Autocomplete {
//@ /// GHOST: the command names this type completes to (of every visible group, in declaration order)
//@ spec fn names() -> Seq<Seq<u8>>;
    // trait is kept available so it's possible to use same where clause
    #[cfg(feature = "autocomplete")]
    /// Try to process autocompletion request
    /// Autocompleted bytes (not present in request) should be written to
    /// given autocompletion.
    fn autocomplete(request: Request<'_>, autocompletion: &mut Autocompletion<'_>);
//@ // Contract of every implementor.  PROVED for the two implementations that exist: the `#[derive(Command)]`
//@ // template (module tmpl_autocomplete, for every list of names) and RawCommand (no names); ASSUMED of
//@ // hand-written implementations and of the group composition emitted by `#[derive(CommandGroup)]`.
//@ requires old(autocompletion).wf(),
//@ ensures crate::autocomplete::ac_api_only(autocompletion),
//@     // C11: exactly the continuations of the names that start with the typed word are merged, in order
//@     final(autocompletion).cands@ == old(autocompletion).cands@ + conts(Self::names(), request.name()),   // [C11]
//@     ac_inv(old(autocompletion).state(), old(autocompletion).cands@, old(autocompletion).room())
//@         ==> ac_inv(final(autocompletion).state(), final(autocompletion).cands@, old(autocompletion).room()),   // [C11]
}

// trait is kept available so it's possible to use same where clause
pub trait Help {
    #[cfg(feature = "help")]
    /// How many commands are known
    fn command_count() -> usize;

    #[cfg(feature = "help")]
    /// Print all commands and short description of each
    fn list_commands<W: Write<Error = E>, E: crate::verif_specs::embedded_io::Error>(
        writer: &mut Writer<'_, W, E>,
    ) -> Result<(), E>;
//@ // Contract of every implementor: prints through the Writer API and reports sink failures.  PROVED for the code
//@ // emitted by #[derive(CommandGroup)] (module tmpl_group_help, two members of generic type), for RawCommand, and for the
//@ // statement fragments + impl literal of the #[derive(Command)] help generator (module tmpl_command_help); ASSUMED of the
//@ // arm that generator emits for a command with a sub-command.
//@ requires old(writer).wf(),
//@ ensures crate::writer::writer_api_only(writer),   // [C14,C13]
//@     r is Ok ==> final(writer).errs() == old(writer).errs(),   // [C14]

    #[cfg(feature = "help")]
    /// Print help for given command. Command might contain -h or --help options
    /// Use given writer to print help text
    /// If help request cannot be processed by this object,
    /// Err(HelpError::UnknownCommand) must be returned
    fn command_help<
        W: Write<Error = E>,
        E: crate::verif_specs::embedded_io::Error,
        F: FnMut(&mut Writer<'_, W, E>) -> Result<(), E>,
    >(
        parent: &mut F,
        command: RawCommand<'_>,
        writer: &mut Writer<'_, W, E>,
    ) -> Result<(), HelpError<E>>;
//@ // Contract of every implementor (see list_commands): in particular a sink failure is never swallowed -- whatever is
//@ // returned other than WriteError means that no sink operation failed
//@ requires old(writer).wf(),
//@     // the continuation that prints the parent's part of the usage line can be called with any well-formed Writer;
//@     // stated on the closure itself (the pointee), so that it survives the reborrow when the reference is passed on
//@     forall|w: &mut Writer<'_, W, E>| w.wf() ==> #[trigger] (*old(parent)).requires((w,)),
//@     // ... and it uses the Writer through its API only and reports a sink failure
//@     forall|w: &mut Writer<'_, W, E>, res: Result<(), E>| w.wf() && #[trigger] (*old(parent)).ensures((w,), res) ==>
//@         crate::writer::writer_api_only(w) && (res is Ok ==> final(w).errs() == w.errs()),
//@ ensures crate::writer::writer_api_only(writer),   // [C14,C13]
//@     !(r matches Err(HelpError::WriteError(_))) ==> final(writer).errs() == old(writer).errs(),   // [C14]
//@     forall|w: &mut Writer<'_, W, E>| w.wf() ==> #[trigger] (*final(parent)).requires((w,)),
//@     forall|w: &mut Writer<'_, W, E>, res: Result<(), E>| w.wf() && #[trigger] (*final(parent)).ensures((w,), res) ==>
//@         crate::writer::writer_api_only(w) && (res is Ok ==> final(w).errs() == w.errs()),
}

pub trait FromRaw<'a>: Sized {
    /// Parse raw command into typed command
    fn parse(raw: RawCommand<'a>) -> Result<Self, ParseError<'a>>;
}

pub trait CommandProcessor<W: Write<Error = E>, E: crate::verif_specs::embedded_io::Error> {
//@ /// GHOST: the calls received so far, as (command name, argument tokens); `process` appends exactly one element --
//@ /// this defines the call log C01 and C12 are stated over
//@ spec fn calls(&self) -> Seq<(Seq<u8>, Seq<Seq<u8>>)>;
    fn process<'a>(
        &mut self,
        cli: &mut CliHandle<'_, W, E>,
        raw: RawCommand<'a>,
    ) -> Result<(), ProcessError<'a, E>>;
//@ // ASSUMED of every implementor (application code): one call is one log entry; the CLI handle is only used through
//@ // its API; sink failures the handler saw are reported as WriteError
//@ requires old(cli).wf(),
//@ ensures final(self).calls() == old(self).calls().push((raw.name_bytes(), raw.arg_tokens())),
//@     crate::cli::handle_api_only(cli),
//@     !(r matches Err(ProcessError::WriteError(_))) ==> final(cli).errs() == old(cli).errs(),
}

