use crate::{buffer::Buffer, utils};
use core::{
    fmt::Debug,
    ops::{Bound, RangeBounds},
};

#[cfg(feature = "autocomplete")]
use crate::autocomplete::{Autocompletion, Request};

pub struct Editor<B: Buffer> {
    buffer: B,

    /// Where next char will be inserted
    cursor: usize,

    /// How many bytes of valid utf-8 are stored in buffer
    valid: usize,
}

//@ #[verifier::external]   // NOT MIRRORED: Debug formatting glue
impl<B: Buffer> Debug for Editor<B> {
    fn fmt(&self, f: &mut core::fmt::Formatter<'_>) -> core::fmt::Result {
        f.debug_struct("Editor")
            .field("buffer", &self.buffer.as_slice())
            .field("cursor", &self.cursor)
            .field("valid", &self.valid)
            .finish()
    }
}

impl<B: Buffer> Editor<B> {
//@ /// size of the command buffer in bytes
//@ pub closed spec fn cap(&self) -> nat { self.buffer.bytes().len() }
//@ /// UTF-8 bytes of the edited line
//@ pub closed spec fn line_bytes(&self) -> Seq<u8> { self.buffer.bytes().subrange(0, self.valid as int) }
//@ /// cursor position in characters
//@ pub closed spec fn cur(&self) -> nat { self.cursor as nat }
//@ /// the edited line as a sequence of Unicode scalar values (abstraction function)
//@ pub open spec fn line(&self) -> Seq<char> { decode_utf8(self.line_bytes()) }
//@ /// length of the completion request for the current line and cursor (see ac_request_len)
//@ #[verifier::opaque]
//@ pub closed spec fn ac_req_len(&self) -> int {
//@     ac_request_len(self.line_bytes(),
//@         if self.cur() < self.line().len() { Some(byte_off(self.line(), self.cur() as int)) } else { None })
//@ }
//@ /// representation invariant, memory part: the valid prefix is inside the buffer and is well-formed UTF-8
//@ pub closed spec fn wf_mem(&self) -> bool {
//@     self.valid <= self.buffer.bytes().len() && valid_utf8(self.line_bytes())
//@ }
//@ /// representation invariant: additionally the cursor is inside the line
//@ pub open spec fn wf(&self) -> bool { self.wf_mem() && self.cur() <= self.line().len() }
//@ /// the line is well-formed UTF-8 (exported consequence of the invariant)
//@ pub proof fn lemma_line_valid(&self)
//@     requires self.wf_mem()
//@     ensures valid_utf8(self.line_bytes()), self.line_bytes().len() <= self.cap()
//@ { }
    pub fn new(buffer: B) -> Self {
//@ ensures r.wf(), r.line() == Seq::<char>::empty(), r.line_bytes() == Seq::<u8>::empty(), r.cur() == 0, r.cap() == buffer.bytes().len(),   // [C05,~C01,~C06,~C02,~C03,~C11,~C17]
//@ ---
//@ proof { assert(buffer.bytes().subrange(0, 0) =~= Seq::<u8>::empty()); }
        Self {
            buffer,
            cursor: 0,
            valid: 0,
        }
    }

    #[cfg(feature = "autocomplete")]
    /// Calls given function to create autocompletion of current input
//@ #[verifier::rlimit(400)]
    pub fn autocompletion(&mut self, f: impl FnOnce(Request<'_>, &mut Autocompletion<'_>)) {
//@ requires old(self).wf(),
//@     // the callback may be called with any request and a fresh well-formed completion ...
//@     forall|req: Request<'_>, a: &mut Autocompletion<'_>| a.wf() && a.state() == (AcState { auto: None, partial: false })
//@         ==> #[trigger] f.requires((req, a)),
//@     // ... and only uses the completion through its API (so it stays well-formed, keeps its room and leaves the
//@     // bytes behind the merged continuation alone)
//@     forall|req: Request<'_>, a: &mut Autocompletion<'_>| #[trigger] f.ensures((req, a), ()) ==> crate::autocomplete::ac_api_only(a),
//@ ensures
//@     final(self).wf(), final(self).cap() == old(self).cap(),   // [~C03,C11,~C01,~C02,C05,~C06,~C17]
//@     // C11: nothing happens unless the line up to the blanks right of the cursor is a single partially typed word
//@     ac_word(old(self).line_bytes().subrange(0, old(self).ac_req_len())) is None ==>
//@         final(self).line_bytes() == old(self).line_bytes() && final(self).cur() == old(self).cur(),   // [C11]
//@     // C11: otherwise the callback ran once on that word with the free space of the command buffer, and the line
//@     // becomes: typed text + merged continuation (+ one space iff the completion is not partial and there is room)
//@     ac_word(old(self).line_bytes().subrange(0, old(self).ac_req_len())) matches Some(w) ==>
//@         exists|req: Request<'_>, a: &mut Autocompletion<'_>| #[trigger] f.ensures((req, a), ())
//@             && req.name() == w && a.state() == (AcState { auto: None, partial: false }) && a.cands@ == Seq::<Seq<u8>>::empty()
//@             && a.room() == old(self).cap() - old(self).ac_req_len()
//@             && final(self).line_bytes() == ac_apply(old(self).line_bytes(), old(self).ac_req_len(), final(a).state(), old(self).cap() as int)
//@             && (final(a).state().auto is None ==> final(self).cur() == old(self).cur())
//@             && (final(a).state().auto is Some ==> final(self).cur() == final(self).line().len()),   // [C11]
//@     // C06 (character level): everything up to the cursor is unchanged, whatever the old line had beyond the new end
//@     // was blank, and the cursor either stays (line unchanged) or goes to the end
//@     ({ let l = old(self).line(); let c = old(self).cur() as int; let l2 = final(self).line();
//@        &&& c <= l2.len() && l2.subrange(0, c) == l.subrange(0, c)
//@        &&& forall|i: int| l2.len() <= i < l.len() ==> l[i] == ' '
//@        &&& (final(self).cur() == l2.len() || (final(self).cur() == c && l2 == l)) }),   // [C06]
//@ ---
//@ let ghost line0 = self.line_bytes();
//@ let ghost l0 = self.line();
//@ let ghost b0 = self.buffer.bytes();
//@ let ghost cap = self.buffer.bytes().len();
//@ proof {
//@     broadcast use axiom_str_len_bound; broadcast use lemma_str_view_bytes;
//@     lemma_split_at_char(line0, self.cursor as int);
//@     reveal(Editor::ac_req_len);
//@ }
        let text = self.text();

        let removed_spaces = if let Some(pos) = utils::char_byte_index(text, self.cursor) {
            // cursor is inside text, so trim all whitespace, that is on the right to the cursor
            let right = &text.as_bytes()[pos..];
            crate::verif_specs::rposition_ne(right, b' ').unwrap_or(right.len())
        } else {
            0
        };
//@ proof {   // [C11]
//@     if self.cursor < l0.len() {
//@         let o = byte_off(l0, self.cursor as int);
//@         let right = line0.subrange(o, line0.len() as int);
//@         lemma_trailing_spaces(right, removed_spaces as int);
//@     }
//@ }
        let request_len = text.len() - removed_spaces;
//@ proof {   // [C02]
//@     assert(request_len == self.ac_req_len());
//@     // the request ends on a character boundary: it is followed by a removed (ASCII) space or by the end
//@     if removed_spaces > 0 {
//@         let o = byte_off(l0, self.cursor as int);
//@         let right = line0.subrange(o, line0.len() as int);
//@         assert(right[right.len() - removed_spaces] == 0x20);
//@         assert(right[right.len() - removed_spaces] == line0[request_len as int]);
//@         assert(line0[request_len as int] == 0x20);
//@         lemma_ascii_boundaries(line0, request_len as int);
//@     } else {
//@         is_char_boundary_start_end_of_seq(line0);
//@     }
//@     valid_utf8_split(line0, request_len as int);
//@     assert(b0.subrange(0, request_len as int) =~= line0.subrange(0, request_len as int));
//@ }
//@ proof {   // [C06]
//@     // the request reaches at least to the cursor and only blanks follow it
//@     if self.cursor < l0.len() {
//@         let o = byte_off(l0, self.cursor as int);
//@         let right = line0.subrange(o, line0.len() as int);
//@         assert(o <= request_len);
//@         assert forall|i: int| request_len <= i < line0.len() implies line0[i] == 0x20 by { assert(right[i - o] == line0[i]); }
//@     } else {
//@         assert(l0.subrange(0, self.cursor as int) =~= l0);
//@         decode_utf8_encode_utf8(line0);
//@     }
//@ }

        // SAFETY: request_len is always less than or equal to buffer len
        let (text, buf) = unsafe { utils::split_at_mut(self.buffer.as_slice_mut(), request_len) };
        // SAFETY: request_len is guaranteed to be inside text slice and at char boundary
        let text = unsafe { core::str::from_utf8_unchecked(text) };

        // SAFETY: in `new` we checked that Request can be created from this input
        if let Some(request) = Request::from_input(text) {
            let mut autocompletion = Autocompletion::new(buf);

            f(request, &mut autocompletion);

            // process autocompletion
            if let Some(autocompleted) = autocompletion.autocompleted() {
                let autocompleted = autocompleted.len();
//@ let ghost st = autocompletion.state();
//@ let ghost x = st.auto.unwrap();
//@ let ghost afin = autocompletion.buf();
//@ let ghost afinfin = autocompletion.fin();
                self.valid = request_len + autocompleted;
                if !autocompletion.is_partial() && self.valid < self.buffer.len() {
                    self.buffer.as_slice_mut()[self.valid] = b' ';
                    self.valid += 1;
                }
//@ proof {   // [C11]
//@     let base = line0.subrange(0, request_len as int) + x;
//@     valid_utf8_concat(line0.subrange(0, request_len as int), x);
//@     assert(x =~= afin.subrange(0, x.len() as int));
//@     if !(!st.partial && request_len + x.len() < cap) {
//@         assert(afinfin == afin);
//@         assert(self.buffer.bytes().len() == cap);
//@         assert(self.buffer.bytes().subrange(0, request_len as int) =~= line0.subrange(0, request_len as int));
//@         assert(self.buffer.bytes().subrange(request_len as int, cap as int) =~= afinfin);
//@         assert(self.buffer.bytes() =~= line0.subrange(0, request_len as int) + afin);
//@         assert(self.line_bytes() =~= base);
//@     }
//@     if !st.partial && request_len + x.len() < cap {
//@         assert(self.buffer.bytes() =~= (line0.subrange(0, request_len as int) + afin).update(request_len + x.len(), 0x20u8));
//@         assert(self.line_bytes() =~= base.push(0x20u8));
//@         lemma_ascii_valid(0x20u8);
//@         valid_utf8_concat(base, seq![0x20u8]);
//@         assert(base + seq![0x20u8] =~= base.push(0x20u8));
//@     }
//@     // C06: the same in characters
//@     let sp = !st.partial && request_len + x.len() < cap;
//@     lemma_ac_chars(line0, old(self).cursor as int, request_len as int, x, sp);
//@     assert(base + Seq::<u8>::empty() =~= base);
//@ }
                self.cursor = self.len();
                return;
            }
        }

//@ proof {   // [C11]
//@     // nothing was merged: the buffer still holds the old bytes (the completion API never wrote)
//@     assert(self.buffer.bytes() =~= b0);
//@ }
        // autocompletion was not successful, so restore removed spaces
        if removed_spaces > 0 {
            // SAFETY: given range is always inside slice
            unsafe {
                self.buffer
                    .as_slice_mut()
                    .get_unchecked_mut(self.valid - removed_spaces..self.valid)
                    .fill(b' ');
            }
//@ proof {   // [C11]
//@     let nb = self.buffer.bytes();
//@     let o = byte_off(l0, self.cursor as int);
//@     let right = line0.subrange(o, line0.len() as int);
//@     assert forall|i: int| self.valid - removed_spaces <= i < self.valid implies line0[i] == 0x20 by {
//@         assert(right[i - o] == line0[i]);
//@     }
//@     assert forall|i: int| 0 <= i < self.valid implies nb[i] == line0[i] by {
//@         if i < self.valid - removed_spaces { assert(nb[i] == b0[i]); }
//@     }
//@     assert(self.line_bytes() =~= line0);
//@ }
        }
    }

    pub fn clear(&mut self) {
//@ requires old(self).wf_mem(),
//@ ensures final(self).wf(), final(self).line() == Seq::<char>::empty(), final(self).line_bytes() == Seq::<u8>::empty(),   // [~C01,~C02,~C03,C05,~C06,~C11,~C17]
//@     final(self).cur() == 0, final(self).cap() == old(self).cap(),   // [C05,~C01,~C06]
        self.valid = 0;
        self.cursor = 0;
//@ proof { assert(self.buffer.bytes().subrange(0, 0) =~= Seq::<u8>::empty()); }
    }

    pub fn cursor(&self) -> usize {
//@ ensures r == self.cur(),
        self.cursor
    }

//@ #[verifier::rlimit(40)]
    pub fn insert(&mut self, text: &str) -> Option<&str> {
//@ requires old(self).wf(),
//@ ensures
//@     final(self).wf(), final(self).cap() == old(self).cap(),   // [~C01,~C02,~C03,C05,~C06,~C11,~C17]
//@     // C05: accepted if and only if the line's UTF-8 length stays within the command buffer
//@     (r is Some) == (old(self).line_bytes().len() + text.spec_bytes().len() <= old(self).cap()),   // [C05,~C01,~C06]
//@     // C05: a rejected insertion changes nothing
//@     r is None ==> final(self).line_bytes() == old(self).line_bytes() && final(self).cur() == old(self).cur(),   // [C05,~C01,~C06]
//@     // C05: the text goes in at the cursor, whatever the byte lengths of the characters involved
//@     r is Some ==> ({
//@         let c = old(self).cur() as int; let l = old(self).line();
//@         &&& final(self).line() == l.subrange(0, c) + text@ + l.subrange(c, l.len() as int)
//@         &&& final(self).cur() == c + text@.len()
//@         &&& r.unwrap()@ == text@ }),   // [C05,C17,~C01,~C06]
//@ ---
//@ proof { broadcast use axiom_str_len_bound; broadcast use lemma_str_view_bytes; }
        let remaining = self.buffer.len() - self.valid;
        let chars = utils::char_count(text);
//@ let ghost tv = text@;
        let text = text.as_bytes();
        if remaining < text.len() {
            //TODO: try to grow buffer
            return None;
        }
//@ let ghost old_bytes = self.line_bytes();
//@ let ghost l = self.line();
//@ let ghost c = self.cursor as int;
//@ proof {   // [C05,~C01,~C06]
//@     lemma_split_at_char(old_bytes, c);
//@ }
//@ let ghost b0 = self.buffer.bytes();
//@ let ghost tl = text@.len() as int;
//@ let ghost off = byte_off(l, c);
        let cursor = if let Some(cursor) = utils::char_byte_index(self.text(), self.cursor) {
            self.buffer
                .as_slice_mut()
                .copy_within(cursor..self.valid, cursor + text.len());
            cursor
        } else {
            self.valid
        };
//@ let ghost b1 = self.buffer.bytes();
//@ proof {   // [C05,~C01,~C06]
//@     assert(cursor == off);
//@     assert(b1.len() == b0.len());
//@     assert(forall|i: int| 0 <= i < off ==> b1[i] == b0[i]);
//@     assert(forall|i: int| off + tl <= i < self.valid + tl ==> b1[i] == b0[i - tl]);
//@ }
        // SAFETY: we checked that buffer contains len bytes after cursor
        // and two buffers do not overlap since mutable reference to buffer is exclusive
        unsafe {
            utils::copy_nonoverlapping(text, &mut self.buffer.as_slice_mut()[cursor..], text.len());
        }
//@ let ghost b2 = self.buffer.bytes();
//@ proof {   // [C05,~C01,~C06]
//@     assert(b2.len() == b0.len());
//@     assert(forall|i: int| 0 <= i < off ==> b2[i] == b0[i]);
//@     assert(forall|i: int| off <= i < off + tl ==> b2[i] == text@[i - off]);
//@     assert(forall|i: int| off + tl <= i < self.valid + tl ==> b2[i] == b0[i - tl]);
//@     let nb = self.buffer.bytes().subrange(0, self.valid + text@.len());
//@     assert(nb =~= old_bytes.subrange(0, cursor as int) + text@ + old_bytes.subrange(cursor as int, old_bytes.len() as int));
//@     lemma_insert_valid(old_bytes, c, text@);
//@ }
//@ let ghost tb = text@;
        let text = &self.buffer.as_slice()[cursor..cursor + text.len()];
//@ proof { assert(text@ =~= tb); }
        self.cursor += chars;
        self.valid += text.len();
//@ proof {   // [C05,~C01,~C06]
//@     assert(self.line_bytes() =~= old_bytes.subrange(0, off) + tb + old_bytes.subrange(off, old_bytes.len() as int));
//@ }
        //SAFETY: we just copied valid utf-8 from &str to this location
        Some(unsafe { core::str::from_utf8_unchecked(text) })
    }

    pub fn len(&self) -> usize {
//@ requires self.wf_mem(),
//@ ensures r == self.line().len(),   // [C05,~C01,~C06]
        utils::char_count(self.text())
    }

    pub fn move_left(&mut self) -> bool {
//@ requires old(self).wf(),
//@ ensures final(self).wf(), final(self).line_bytes() == old(self).line_bytes(), final(self).cap() == old(self).cap(),   // [~C01,~C02,~C03,C05,~C06,~C11,~C17]
//@     // C05: Left moves by one whole character and stops at the start
//@     r == (old(self).cur() > 0), final(self).cur() == (if old(self).cur() > 0 { old(self).cur() - 1 } else { 0 }) as nat,   // [C05,~C01,~C06]
        if self.cursor > 0 {
            self.cursor -= 1;
            true
        } else {
            false
        }
    }

    pub fn move_right(&mut self) -> bool {
//@ requires old(self).wf(),
//@ ensures final(self).wf(), final(self).line_bytes() == old(self).line_bytes(), final(self).cap() == old(self).cap(),   // [~C01,~C02,~C03,C05,~C06,~C11,~C17]
//@     // C05: Right moves by one whole character and stops at the end
//@     r == (old(self).cur() < old(self).line().len()),
//@     final(self).cur() == (if old(self).cur() < old(self).line().len() { old(self).cur() + 1 } else { old(self).cur() }),   // [C05,~C01,~C06]
        if self.cursor < self.len() {
            self.cursor += 1;
            true
        } else {
            false
        }
    }

    /// Removes char at cursor position
//@ #[verifier::rlimit(60)]
    pub fn remove(&mut self) {
//@ requires old(self).wf(),
//@ ensures final(self).wf(), final(self).cap() == old(self).cap(), final(self).cur() == old(self).cur(),   // [~C01,~C02,~C03,C05,~C06,~C11,~C17]
//@     // C05: the character at the cursor is removed, whatever its byte length; at the end nothing happens
//@     final(self).line() == (if old(self).cur() < old(self).line().len() { old(self).line().remove(old(self).cur() as int) } else { old(self).line() }),   // [C05,C17,~C01,~C06]
//@ ---
//@ let ghost bytes0 = self.line_bytes();
//@ let ghost l = self.line();
//@ let ghost c = self.cursor as int;
//@ proof {   // [C05,~C01,~C06]
//@     broadcast use lemma_str_view_bytes;
//@     lemma_split_at_char(bytes0, c);
//@     if c < l.len() { lemma_remove_valid(bytes0, c); lemma_byte_off_step(l, c); lemma_split_at_char(bytes0, c + 1); }
//@ }
        let cursor_pos = utils::char_byte_index(self.text(), self.cursor);
        let next_pos = if let Some(cursor_pos) = cursor_pos {
            // SAFETY: cursor_pos is at char boundary
//@ proof {   // [C02]
//@     is_char_boundary_start_end_of_seq(bytes0);
//@ }
            let text = unsafe { self.text().get_unchecked(cursor_pos..) };
//@ proof {   // [C05,~C01,~C06]
//@     assert(text.spec_bytes() == bytes0.subrange(cursor_pos as int, bytes0.len() as int));
//@     encode_utf8_decode_utf8(l.subrange(c, l.len() as int));
//@     assert(text@ == l.subrange(c, l.len() as int));
//@ }
            (match utils::char_byte_index(text, 1) { Some(s) => Some(s + cursor_pos), None => None })
        } else {
            None
        };

        match (cursor_pos, next_pos) {
            (Some(cursor), None) => {
//@ proof {   // [C05,~C01,~C06]
//@     assert(c == l.len() - 1);
//@     lemma_truncate_valid(bytes0, c);
//@     assert(l.remove(c) =~= l.subrange(0, c));
//@ }
                // we are at the last char, so just decrease valid size
                self.valid = cursor;
//@ proof { assert(self.line_bytes() =~= bytes0.subrange(0, cursor as int)); }   // [C05,~C01,~C06]
            }
            (Some(cursor), Some(next)) => {
//@ let ghost b0 = self.buffer.bytes();
                self.buffer
                    .as_slice_mut()
                    .copy_within(next..self.valid, cursor);
                self.valid -= next - cursor;
//@ proof {   // [C05,~C01,~C06]
//@     assert(self.line_bytes() =~= bytes0.subrange(0, cursor as int) + bytes0.subrange(next as int, bytes0.len() as int));
//@ }
            }
            _ => {} // nothing to remove
        }
    }

    pub fn text(&self) -> &str {
//@ requires self.wf_mem(),
//@ ensures r@ == self.line(), r.spec_bytes() == self.line_bytes(),   // [C05,~C01,~C06]
        // SAFETY: buffer stores only valid utf-8 bytes 0..valid range
        unsafe {
            core::str::from_utf8_unchecked(self.buffer.as_slice().get_unchecked(..self.valid))
        }
    }

    pub fn text_mut(&mut self) -> &mut str {
//@ requires old(self).wf_mem(),
//@ ensures r.spec_bytes() == old(self).line_bytes(),
//@     // whatever the caller writes through the returned &mut str (still a str, hence well-formed) is the new line
//@     final(self).line_bytes() == final(r).spec_bytes(), final(self).cap() == old(self).cap(), final(self).cur() == old(self).cur(),
//@     final(self).wf_mem(),   // [C02]
//@ ---
//@ proof { broadcast use lemma_str_view_bytes; }
        // SAFETY: buffer stores only valid utf-8 bytes 0..valid range
        unsafe {
            core::str::from_utf8_unchecked_mut(
                self.buffer.as_slice_mut().get_unchecked_mut(..self.valid),
            )
        }
    }

    /// Returns text in subrange of this editor. start is including, end is exclusive
    #[allow(dead_code)]
    pub fn text_range(&self, range: core::ops::RangeFrom<usize>) -> &str {
//@ requires self.wf_mem(),
//@ ensures r@ == (if range.start < self.line().len() { self.line().subrange(range.start as int, self.line().len() as int) } else { Seq::<char>::empty() }),   // [C05,C11,~C06]
//@ ---
//@ proof {
//@     broadcast use axiom_str_len_bound; broadcast use lemma_str_view_bytes; reveal_strlit("");
//@     if range.start <= self.line().len() {
//@         lemma_split_at_char(self.line_bytes(), range.start as int);
//@         encode_utf8_valid_utf8(self.line().subrange(range.start as int, self.line().len() as int));
//@         encode_utf8_decode_utf8(self.line().subrange(range.start as int, self.line().len() as int));
//@     }
//@ }
        let (start, num_chars) = match (range.start_bound(), range.end_bound()) {
            (Bound::Included(start), Bound::Included(end)) => {
                if end < start {
                    return "";
                }
                (*start, Some(end - start + 1))
            }
            (Bound::Included(start), Bound::Excluded(end)) => {
                if end <= start {
                    return "";
                }
                (*start, Some(end - start))
            }
            (Bound::Unbounded, Bound::Included(end)) => (0, Some(end + 1)),
            (Bound::Unbounded, Bound::Excluded(end)) => {
                if *end == 0 {
                    return "";
                }
                (0, Some(*end))
            }
            (Bound::Included(start), Bound::Unbounded) => (*start, None),
            (Bound::Unbounded, Bound::Unbounded) => (0, None),
            (Bound::Excluded(_), _) => unreachable!(),
        };

        let text = self.text();

        let (start, end) = if let Some(num_chars) = num_chars {
            if let Some(pos) = utils::char_byte_index(text, start) {
                // SAFETY: pos is at char boundary
                let text = unsafe { text.get_unchecked(pos..) };
                let b = (match utils::char_byte_index(text, num_chars) { Some(s) => Some(s + pos), None => None });
                (Some(pos), b)
            } else {
                (None, None)
            }
        } else {
            (utils::char_byte_index(text, start), None)
        };

        match (start, end) {
            (Some(start), Some(end)) => {
                // SAFETY: we take substring from valid utf8 slice
                unsafe { core::str::from_utf8_unchecked(&text.as_bytes()[start..end]) }
            }
            (Some(start), None) => {
                // SAFETY: we take substring from valid utf8 slice
                unsafe { core::str::from_utf8_unchecked(&text.as_bytes()[start..]) }
            }
            _ => "",
        }
    }
}

