use crate::utf8::Utf8Accum;

/// Returns byte index of given char index
/// If text doesn't have that many chars, returns None
/// For example, in text `abc` `b` has both char and byte index of `1`.
/// But in text `вгд` `г` has char index of 1, but byte index of `2` (`в` is 2 bytes long)
pub fn char_byte_index(text: &str, char_index: usize) -> Option<usize> {
//@ ensures
//@     char_index < text@.len() ==> r == Some(byte_off(text@, char_index as int) as usize),   // [C05,C17]
//@     char_index >= text@.len() ==> r is None,   // [C05,C17]
//@     r is Some ==> r.unwrap() < text.spec_bytes().len() && is_char_boundary(text.spec_bytes(), r.unwrap() as int),  // [C02,C05]
    let mut accum = Utf8Accum::default();
    let mut byte_index = 0;
    let mut current = 0;
//@ let ghost bytes = text.spec_bytes();
//@ proof {
//@     broadcast use axiom_str_len_bound;
//@     encode_utf8_valid_utf8(text@); encode_utf8_decode_utf8(text@); lemma_scan_valid(bytes);
//@ }
    for __i in 0..text.as_bytes().len() {
//@ invariant
//@     bytes == text.spec_bytes(), valid_utf8(bytes), decode_utf8(bytes) == text@,
//@     accum.wf(),
//@     (accum.pending(), current as nat) == scan(Seq::empty(), bytes.subrange(0, __i as int)),
//@     byte_index == __i, current <= char_index, current <= __i,
//@     current == char_index ==> accum.pending().len() == 0,
        let b = text.as_bytes()[__i];
//@ proof { assert(bytes.subrange(0, __i + 1).drop_last() =~= bytes.subrange(0, __i as int)); }
        if char_index == current {
//@ proof {
//@     lemma_scan_prefix(bytes, __i as int);
//@     lemma_boundary_offset(bytes, __i as int);
//@ }
            return Some(byte_index);
        }
        if accum.push_byte(b).is_some() {
            current += 1;
        }
        byte_index += 1;
    }
//@ proof {
//@     assert(bytes.subrange(0, bytes.len() as int) =~= bytes);
//@ }
    if char_index == current && byte_index < text.len() {
        return Some(byte_index);
    }
    None
}

pub fn char_count(text: &str) -> usize {
//@ ensures r == text@.len(),   // [C05,C17]
    let mut accum = Utf8Accum::default();
    let mut count = 0;
//@ let ghost bytes = text.spec_bytes();
//@ proof { encode_utf8_valid_utf8(text@); encode_utf8_decode_utf8(text@); lemma_scan_valid(bytes); }
    for __i in 0..text.as_bytes().len() {
//@ invariant
//@     bytes == text.spec_bytes(), accum.wf(), count <= __i,
//@     (accum.pending(), count as nat) == scan(Seq::empty(), bytes.subrange(0, __i as int)),
        let b = text.as_bytes()[__i];
//@ proof { assert(bytes.subrange(0, __i + 1).drop_last() =~= bytes.subrange(0, __i as int)); }
        if accum.push_byte(b).is_some() {
            count += 1;
        }
    }
//@ proof { assert(bytes.subrange(0, bytes.len() as int) =~= bytes); }
    count
}

pub fn char_pop_front(text: &str) -> Option<(char, &str)> {
//@ ensures
//@     text@.len() == 0 ==> r is None,   // [C08]
//@     text@.len() > 0 ==> r is Some && r.unwrap().0 == text@[0] && r.unwrap().1@ == text@.drop_first(),  // [C08,C17]
    if text.is_empty() {
        None
    } else {
        let bytes = text.as_bytes();
        let first = bytes[0];
//@ let ghost s = text.spec_bytes();
//@ let ghost n = length_of_first_scalar(s);
//@ proof {
//@     encode_utf8_valid_utf8(text@); encode_utf8_decode_utf8(text@);
//@     encode_utf8_first_scalar(text@);
//@     lemma_second_ok_or_ascii(s);
//@     lemma_pop_front_bits(s);
//@ }

        let mut codepoint = if first < 0x80 {
            first as u32
        } else if (first & 0xE0) == 0xC0 {
            (first & 0x1F) as u32
        } else {
            (first & 0x0F) as u32
        };

        let mut bytes = &bytes[1..];
//@ let ghost mut k: int = 1;
//@ proof { assert(is_char_boundary(pop_first_scalar(s), 0)); assert(is_char_boundary(s, n)); }
        // go over all other bytes and add merge into codepoint
        while !bytes.is_empty() && (bytes[0] & 0xC0) == 0x80 {
//@ invariant
//@     s == text.spec_bytes(), valid_utf8(s), s.len() > 0, valid_first_scalar(s), n == length_of_first_scalar(s),
//@     is_char_boundary(s, n),
//@     1 <= k <= n, bytes@ == s.subrange(k, s.len() as int),
//@     codepoint == pop_partial(s, k),
//@ decreases n - k,
//@ ---
//@ proof {
//@     assert(bytes@[0] == s[k]);
//@     lemma_cont_mask(bytes@[0]);
//@     if k == n { is_char_boundary_iff_not_is_continuation_byte(s, n); }
//@     assert(k < n);
//@     lemma_pop_step(s, k, codepoint);
//@ }
            codepoint <<= 6;
            codepoint |= bytes[0] as u32 & 0x3F;
            bytes = &bytes[1..];
//@ proof { k = k + 1; }
        }

//@ proof {
//@     if bytes@.len() > 0 {
//@         assert(bytes@[0] == s[k]);
//@         lemma_cont_mask(bytes@[0]);
//@     }
//@     assert(k == n);
//@     lemma_pop_final(s);
//@     assert(bytes@ == pop_first_scalar(s));
//@     assert(decode_utf8(s).drop_first() =~= decode_utf8(pop_first_scalar(s)));
//@ }
        // SAFETY: after all modifications codepoint is valid u32 char
        // and bytes contains valid utf-8 sequence
        unsafe {
            Some((
                char::from_u32_unchecked(codepoint),
                core::str::from_utf8_unchecked(bytes),
            ))
        }
    }
}

/// Returns length (in bytes) of longest common prefix
pub fn common_prefix_len(left: &str, right: &str) -> usize {
//@ ensures
//@     r <= left.spec_bytes().len(), r <= right.spec_bytes().len(),   // [C03]
//@     left.spec_bytes().subrange(0, r as int) == right.spec_bytes().subrange(0, r as int),   // [C11,C17]
//@     is_char_boundary(left.spec_bytes(), r as int),   // [C02,C11,C17,~C05]
//@     // maximal: no longer common prefix ends on a character boundary of `left`
//@     forall|p: int| r < p <= left.spec_bytes().len() && p <= right.spec_bytes().len() && #[trigger] is_char_boundary(left.spec_bytes(), p)
//@         ==> left.spec_bytes().subrange(0, p) != right.spec_bytes().subrange(0, p),   // [C11,C17]
//@     r == cpl(left.spec_bytes(), right.spec_bytes()),   // [C11]
    let mut accum1 = Utf8Accum::default();

    let mut pos = 0;
    let mut byte_counter = 0;
//@ let ghost lb = left.spec_bytes();
//@ let ghost rb = right.spec_bytes();
//@ let ghost mut upto: int = 0;
//@ let ghost mut stopped: bool = false;
//@ proof {
//@     broadcast use axiom_str_len_bound;
//@     encode_utf8_valid_utf8(left@);
//@ }

    for __i in 0..(if left.as_bytes().len() < right.as_bytes().len() { left.as_bytes().len() } else { right.as_bytes().len() }) {
//@ invariant_except_break
//@     !stopped, upto == __i, byte_counter == __i,
//@     accum1.wf(), accum1.pending() == scan(Seq::empty(), lb.subrange(0, __i as int)).0,
//@ invariant
//@     lb == left.spec_bytes(), rb == right.spec_bytes(), valid_utf8(lb),
//@     0 <= upto <= lb.len(), upto <= rb.len(),
//@     stopped ==> upto < lb.len() && upto < rb.len() && lb[upto] != rb[upto],
//@     forall|j: int| 0 <= j < upto ==> lb[j] == rb[j],
//@     pos <= upto, is_char_boundary(lb, pos as int),
//@     forall|j: int| pos < j <= upto ==> !is_char_boundary(lb, j),
//@ ensures
//@     !stopped ==> (upto == lb.len() || upto == rb.len()),
        let b1 = left.as_bytes()[__i]; let b2 = right.as_bytes()[__i];
//@ proof {
//@     assert(lb.subrange(0, __i + 1).drop_last() =~= lb.subrange(0, __i as int));
//@     lemma_scan_prefix(lb, __i as int);
//@ }
        if b1 != b2 {
//@ proof { stopped = true; }
            break;
        }
        let c1 = accum1.push_byte(b1);
        byte_counter += 1;
        if c1.is_some() {
            pos = byte_counter;
        }
//@ proof { upto = upto + 1; }
    }

//@ proof {
//@     assert(lb.subrange(0, pos as int) =~= rb.subrange(0, pos as int));
//@     assert(cpl_pred(lb, rb, pos as int)) by {
//@     assert forall|p: int| pos < p <= lb.len() && p <= rb.len() && is_char_boundary(lb, p)
//@         implies lb.subrange(0, p) != rb.subrange(0, p) by {
//@         if p <= upto {
//@         } else {
//@             // upto < p: the loop stopped at a mismatch (otherwise upto is the shorter length)
//@             assert(stopped);
//@             assert(lb.subrange(0, p)[upto] == lb[upto]);
//@             assert(rb.subrange(0, p)[upto] == rb[upto]);
//@         }
//@     }
//@     }
//@     lemma_cpl_unique(lb, rb, pos as int);
//@ }
    pos
}

/// Encodes given character as UTF-8 into the provided byte buffer,
/// and then returns the subslice of the buffer that contains the encoded character.
pub fn encode_utf8(ch: char, buf: &mut [u8]) -> &str {
//@ requires old(buf)@.len() >= encode_scalar(ch as u32).len(),   // [C03]
//@ ensures r.spec_bytes() == encode_scalar(ch as u32), r@ == seq![ch],   // [C17,C02]
    let mut code = ch as u32;
//@ let ghost orig = code;
//@ proof {
//@     char_is_scalar(ch);
//@     encode_utf8_valid_utf8(seq![ch]); encode_utf8_decode_utf8(seq![ch]);
//@     reveal_with_fuel(vstd::utf8::encode_utf8, 2);
//@     assert(seq![ch].drop_first() =~= Seq::<char>::empty());
//@     assert(vstd::utf8::encode_utf8(seq![ch]) =~= encode_scalar(ch as u32));
//@ }

    if code < 0x80 {
        buf[0] = ch as u8;
//@ proof {
//@     assert((code & 0x7F) as u8 == code as u8) by (bit_vector) requires code < 0x80;
//@     assert(buf@.subrange(0, 1) =~= seq![ch as u8]);
//@ }
        unsafe {
            return core::str::from_utf8_unchecked(&buf[..1]);
        }
    }

    let mut counter = if code < 0x800 {
        // 2-byte char
        1
    } else if code < 0x10000 {
        // 3-byte char
        2
    } else {
        // 4-byte char
        3
    };

    let first_b_mask = (0x780 >> counter) as u8;
//@ proof {
//@     assert((0x780i32 >> 1usize) as u8 == 0xC0u8) by (bit_vector);
//@     assert((0x780i32 >> 2usize) as u8 == 0xE0u8) by (bit_vector);
//@     assert((0x780i32 >> 3usize) as u8 == 0xF0u8) by (bit_vector);
//@ }

    let len = counter + 1;
    while counter > 0 {
//@ invariant
//@     is_scalar(orig), orig >= 0x80, len == encode_scalar(orig).len(),
//@     enc_loop_inv(orig, len as int, counter as int, code, buf@),
//@ decreases counter,
//@ ---
//@ proof { lemma_enc_step(orig, len as int, counter as int, code, buf@); }
        buf[counter] = ((code as u8) & 0b0011_1111) | 0b1000_0000;
        code >>= 6;
        counter -= 1;
    }

    buf[0] = code as u8 | first_b_mask;
//@ proof {
//@     lemma_enc_final(orig, len as int, code, first_b_mask, buf@);
//@     assert(buf@.subrange(0, len as int) =~= encode_scalar(orig));
//@ }

    unsafe { core::str::from_utf8_unchecked(&buf[..len]) }
}

pub fn trim_start(input: &str) -> &str {
//@ ensures
//@     r.spec_bytes() == trim_start_spec(input.spec_bytes()),   // [C11]
//@ ---
//@ proof {
//@     broadcast use axiom_str_len_bound;
//@     encode_utf8_valid_utf8(input@);
//@ }
    if let Some(pos) = crate::verif_specs::position_ne(input.as_bytes(), b' ') {
//@ proof {
//@     lemma_leading_spaces(input.spec_bytes(), pos as int);
//@     lemma_ascii_prefix_boundary(input.spec_bytes(), pos as int);
//@     is_char_boundary_start_end_of_seq(input.spec_bytes());
//@ }
        input.get(pos..).unwrap_or("")
    } else {
//@ proof {
//@     lemma_leading_spaces(input.spec_bytes(), input.spec_bytes().len() as int);
//@     reveal_strlit("");
//@     assert("".spec_bytes() =~= Seq::<u8>::empty());
//@     assert(trim_start_spec(input.spec_bytes()) =~= Seq::<u8>::empty());
//@ }
        ""
    }
}

/// Copies content from one slice to another (equivalent of memcpy)
///
/// # Safety
/// Length of both slices must be at least `len`
//@ #[verifier::external_body]
pub unsafe fn copy_nonoverlapping(src: &[u8], dst: &mut [u8], len: usize) {
//@ requires src@.len() >= len, old(dst)@.len() >= len,   // documented safety condition  [C03]
//@ ensures final(dst)@ == src@.subrange(0, len as int) + old(dst)@.subrange(len as int, old(dst)@.len() as int),
    debug_assert!(src.len() >= len);
    debug_assert!(dst.len() >= len);

    // SAFETY: Caller has to check that slices have len bytes
    // and two buffers can't overlap since mutable ref is exlusive
    unsafe {
        core::ptr::copy_nonoverlapping(src.as_ptr(), dst.as_mut_ptr(), len);
    }
}

/// Splits given mutable slice into two parts
///
/// # Safety
/// mid must be <= slice.len()
#[cfg(feature = "autocomplete")]
//@ #[verifier::external_body]
pub unsafe fn split_at_mut(buf: &mut [u8], mid: usize) -> (&mut [u8], &mut [u8]) {
//@ requires mid <= old(buf)@.len(),   // documented safety condition  [C03]
//@ ensures r.0@ == old(buf)@.subrange(0, mid as int), r.1@ == old(buf)@.subrange(mid as int, old(buf)@.len() as int),
//@     final(buf)@ == final(r.0)@ + final(r.1)@,
    // this exists only because slice::split_at_unchecked is not stable:
    // https://github.com/rust-lang/rust/issues/76014
    let len = buf.len();
    let ptr = buf.as_mut_ptr();

    // SAFETY: Caller has to check that `mid <= self.len()`
    unsafe {
        debug_assert!(mid <= len);
        (
            core::slice::from_raw_parts_mut(ptr, mid),
            core::slice::from_raw_parts_mut(ptr.add(mid), len - mid),
        )
    }
}

