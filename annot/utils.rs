use crate::utf8::Utf8Accum;

/// Returns byte index of given char index
/// If text doesn't have that many chars, returns None
/// For example, in text `abc` `b` has both char and byte index of `1`.
/// But in text `вгд` `г` has char index of 1, but byte index of `2` (`в` is 2 bytes long)
pub fn char_byte_index(text: &str, char_index: usize) -> Option<usize> {
    let mut accum = Utf8Accum::default();
    let mut byte_index = 0;
    let mut current = 0;
    for __i in 0..text.as_bytes().len() {
        let b = text.as_bytes()[__i];
        if char_index == current {
            return Some(byte_index);
        }
        if accum.push_byte(b).is_some() {
            current += 1;
        }
        byte_index += 1;
    }
    if char_index == current && byte_index < text.len() {
        return Some(byte_index);
    }
    None
}

pub fn char_count(text: &str) -> usize {
    let mut accum = Utf8Accum::default();
    let mut count = 0;
    for __i in 0..text.as_bytes().len() {
        let b = text.as_bytes()[__i];
        if accum.push_byte(b).is_some() {
            count += 1;
        }
    }
    count
}

pub fn char_pop_front(text: &str) -> Option<(char, &str)> {
    if text.is_empty() {
        None
    } else {
        let bytes = text.as_bytes();
        let first = bytes[0];

        let mut codepoint = if first < 0x80 {
            first as u32
        } else if (first & 0xE0) == 0xC0 {
            (first & 0x1F) as u32
        } else {
            (first & 0x0F) as u32
        };

        let mut bytes = &bytes[1..];
        // go over all other bytes and add merge into codepoint
        while !bytes.is_empty() && (bytes[0] & 0xC0) == 0x80 {
            codepoint <<= 6;
            codepoint |= bytes[0] as u32 & 0x3F;
            bytes = &bytes[1..];
        }

        // SAFETY: after all modifications codepoint is valid u32 char
        // and bytes contains valid utf-8 sequence
        unsafe {
            Some((
                char::from_u32_unchecked(codepoint),
                core::str::from_utf8_unchecked(bytes),
            ))
        }
    }
}

/// Returns length (in bytes) of longest common prefix
pub fn common_prefix_len(left: &str, right: &str) -> usize {
    let mut accum1 = Utf8Accum::default();

    let mut pos = 0;
    let mut byte_counter = 0;

    for __i in 0..(if left.as_bytes().len() < right.as_bytes().len() { left.as_bytes().len() } else { right.as_bytes().len() }) {
        let b1 = left.as_bytes()[__i]; let b2 = right.as_bytes()[__i];
        if b1 != b2 {
            break;
        }
        let c1 = accum1.push_byte(b1);
        byte_counter += 1;
        if c1.is_some() {
            pos = byte_counter;
        }
    }

    pos
}

/// Encodes given character as UTF-8 into the provided byte buffer,
/// and then returns the subslice of the buffer that contains the encoded character.
pub fn encode_utf8(ch: char, buf: &mut [u8]) -> &str {
    let mut code = ch as u32;

    if code < 0x80 {
        buf[0] = ch as u8;
        unsafe {
            return core::str::from_utf8_unchecked(&buf[..1]);
        }
    }

    let mut counter = if code < 0x800 {
        // 2-byte char
        1
    } else if code < 0x10000 {
        // 3-byte char
        2
    } else {
        // 4-byte char
        3
    };

    let first_b_mask = (0x780 >> counter) as u8;

    let len = counter + 1;
    while counter > 0 {
        buf[counter] = ((code as u8) & 0b0011_1111) | 0b1000_0000;
        code >>= 6;
        counter -= 1;
    }

    buf[0] = code as u8 | first_b_mask;

    unsafe { core::str::from_utf8_unchecked(&buf[..len]) }
}

pub fn trim_start(input: &str) -> &str {
    if let Some(pos) = crate::verif_specs::position_ne(input.as_bytes(), b' ') {
        input.get(pos..).unwrap_or("")
    } else {
        ""
    }
}

/// Copies content from one slice to another (equivalent of memcpy)
///
/// # Safety
/// Length of both slices must be at least `len`
pub unsafe fn copy_nonoverlapping(src: &[u8], dst: &mut [u8], len: usize) {
    debug_assert!(src.len() >= len);
    debug_assert!(dst.len() >= len);

    // SAFETY: Caller has to check that slices have len bytes
    // and two buffers can't overlap since mutable ref is exlusive
    unsafe {
        core::ptr::copy_nonoverlapping(src.as_ptr(), dst.as_mut_ptr(), len);
    }
}

/// Splits given mutable slice into two parts
///
/// # Safety
/// mid must be <= slice.len()
#[cfg(feature = "autocomplete")]
pub unsafe fn split_at_mut(buf: &mut [u8], mid: usize) -> (&mut [u8], &mut [u8]) {
    // this exists only because slice::split_at_unchecked is not stable:
    // https://github.com/rust-lang/rust/issues/76014
    let len = buf.len();
    let ptr = buf.as_mut_ptr();

    // SAFETY: Caller has to check that `mid <= self.len()`
    unsafe {
        debug_assert!(mid <= len);
        (
            core::slice::from_raw_parts_mut(ptr, mid),
            core::slice::from_raw_parts_mut(ptr.add(mid), len - mid),
        )
    }
}

