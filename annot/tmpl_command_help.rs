pub struct DerivedHelpCommand;

/// stands for any sequence of fragments: has the contract every fragment below is proved to have
#[verifier::external_body]
pub fn hole<W: crate::verif_specs::embedded_io::Write<Error = E>, E: crate::verif_specs::embedded_io::Error, F: FnMut(&mut crate::writer::Writer<'_, W, E>) -> Result<(), E>>(
    parent: &mut F,
    writer: &mut crate::writer::Writer<'_, W, E>,
) -> (r: Result<(), E>)
    requires old(writer).wf(),
        // ASSUMED of the continuation that prints the parent's part of the usage line (the two that exist: `|_| Ok(())` in
        // Cli::process_help and the closure emitted for a sub-command, which adds two write_str calls): callable with any
        // well-formed Writer, uses it through its API only, reports a sink failure
        forall|w: &mut crate::writer::Writer<'_, W, E>| w.wf() ==> #[trigger] (*old(parent)).requires((w,)),
        forall|w: &mut crate::writer::Writer<'_, W, E>, res: Result<(), E>| w.wf() && #[trigger] (*old(parent)).ensures((w,), res) ==>
            crate::writer::writer_api_only(w) && (res is Ok ==> final(w).errs() == w.errs()),
    ensures crate::writer::writer_api_only(writer),   // [C14,C13]
        r is Ok ==> final(writer).errs() == old(writer).errs(),   // [C14]
        forall|w: &mut crate::writer::Writer<'_, W, E>| w.wf() ==> #[trigger] (*final(parent)).requires((w,)),
        forall|w: &mut crate::writer::Writer<'_, W, E>, res: Result<(), E>| w.wf() && #[trigger] (*final(parent)).ensures((w,), res) ==>
            crate::writer::writer_api_only(w) && (res is Ok ==> final(w).errs() == w.errs()),
{
    unimplemented!()
}

/// as `hole`, where no parent continuation is in scope (list_commands)
#[verifier::external_body]
pub fn hole_w<W: crate::verif_specs::embedded_io::Write<Error = E>, E: crate::verif_specs::embedded_io::Error>(
    writer: &mut crate::writer::Writer<'_, W, E>,
) -> (r: Result<(), E>)
    requires old(writer).wf(),
    ensures crate::writer::writer_api_only(writer),
        r is Ok ==> final(writer).errs() == old(writer).errs(),
{
    unimplemented!()
}

// statement fragment of embedded-cli-macros/src/command/help.rs:81
pub fn frag_01<W: crate::verif_specs::embedded_io::Write<Error = E>, E: crate::verif_specs::embedded_io::Error, F: FnMut(&mut crate::writer::Writer<'_, W, E>) -> Result<(), E>, H: crate::service::Help>(
    parent: &mut F,
    writer: &mut crate::writer::Writer<'_, W, E>,
    h_name: &str,
    h_help: &str,
    h_max_len: usize,
) -> (r: Result<(), E>)
    requires old(writer).wf(),
        // ASSUMED of the continuation that prints the parent's part of the usage line (the two that exist: `|_| Ok(())` in
        // Cli::process_help and the closure emitted for a sub-command, which adds two write_str calls): callable with any
        // well-formed Writer, uses it through its API only, reports a sink failure
        forall|w: &mut crate::writer::Writer<'_, W, E>| w.wf() ==> #[trigger] (*old(parent)).requires((w,)),
        forall|w: &mut crate::writer::Writer<'_, W, E>, res: Result<(), E>| w.wf() && #[trigger] (*old(parent)).ensures((w,), res) ==>
            crate::writer::writer_api_only(w) && (res is Ok ==> final(w).errs() == w.errs()),
    ensures crate::writer::writer_api_only(writer),   // [C14,C13]
        r is Ok ==> final(writer).errs() == old(writer).errs(),   // [C14]
        forall|w: &mut crate::writer::Writer<'_, W, E>| w.wf() ==> #[trigger] (*final(parent)).requires((w,)),
        forall|w: &mut crate::writer::Writer<'_, W, E>, res: Result<(), E>| w.wf() && #[trigger] (*final(parent)).ensures((w,), res) ==>
            crate::writer::writer_api_only(w) && (res is Ok ==> final(w).errs() == w.errs()),
{
    writer.write_list_element(h_name, h_help, h_max_len)?;
    Ok(())
}

// statement fragment of embedded-cli-macros/src/command/help.rs:88
pub fn frag_02<W: crate::verif_specs::embedded_io::Write<Error = E>, E: crate::verif_specs::embedded_io::Error, F: FnMut(&mut crate::writer::Writer<'_, W, E>) -> Result<(), E>, H: crate::service::Help>(
    parent: &mut F,
    writer: &mut crate::writer::Writer<'_, W, E>,
    h_title: &str,
) -> (r: Result<(), E>)
    requires old(writer).wf(),
        // ASSUMED of the continuation that prints the parent's part of the usage line (the two that exist: `|_| Ok(())` in
        // Cli::process_help and the closure emitted for a sub-command, which adds two write_str calls): callable with any
        // well-formed Writer, uses it through its API only, reports a sink failure
        forall|w: &mut crate::writer::Writer<'_, W, E>| w.wf() ==> #[trigger] (*old(parent)).requires((w,)),
        forall|w: &mut crate::writer::Writer<'_, W, E>, res: Result<(), E>| w.wf() && #[trigger] (*old(parent)).ensures((w,), res) ==>
            crate::writer::writer_api_only(w) && (res is Ok ==> final(w).errs() == w.errs()),
    ensures crate::writer::writer_api_only(writer),   // [C14,C13]
        r is Ok ==> final(writer).errs() == old(writer).errs(),   // [C14]
        forall|w: &mut crate::writer::Writer<'_, W, E>| w.wf() ==> #[trigger] (*final(parent)).requires((w,)),
        forall|w: &mut crate::writer::Writer<'_, W, E>, res: Result<(), E>| w.wf() && #[trigger] (*final(parent)).ensures((w,), res) ==>
            crate::writer::writer_api_only(w) && (res is Ok ==> final(w).errs() == w.errs()),
{
    writer.write_title(h_title)?;
    writer.writeln_str("")?;
    hole(parent, writer)?;   // #(#elements)*
    Ok(())
}

// statement fragment of embedded-cli-macros/src/command/help.rs:105
pub fn frag_03<W: crate::verif_specs::embedded_io::Write<Error = E>, E: crate::verif_specs::embedded_io::Error, F: FnMut(&mut crate::writer::Writer<'_, W, E>) -> Result<(), E>, H: crate::service::Help>(
    parent: &mut F,
    writer: &mut crate::writer::Writer<'_, W, E>,
    h_help: &str,
) -> (r: Result<(), E>)
    requires old(writer).wf(),
        // ASSUMED of the continuation that prints the parent's part of the usage line (the two that exist: `|_| Ok(())` in
        // Cli::process_help and the closure emitted for a sub-command, which adds two write_str calls): callable with any
        // well-formed Writer, uses it through its API only, reports a sink failure
        forall|w: &mut crate::writer::Writer<'_, W, E>| w.wf() ==> #[trigger] (*old(parent)).requires((w,)),
        forall|w: &mut crate::writer::Writer<'_, W, E>, res: Result<(), E>| w.wf() && #[trigger] (*old(parent)).ensures((w,), res) ==>
            crate::writer::writer_api_only(w) && (res is Ok ==> final(w).errs() == w.errs()),
    ensures crate::writer::writer_api_only(writer),   // [C14,C13]
        r is Ok ==> final(writer).errs() == old(writer).errs(),   // [C14]
        forall|w: &mut crate::writer::Writer<'_, W, E>| w.wf() ==> #[trigger] (*final(parent)).requires((w,)),
        forall|w: &mut crate::writer::Writer<'_, W, E>, res: Result<(), E>| w.wf() && #[trigger] (*final(parent)).ensures((w,), res) ==>
            crate::writer::writer_api_only(w) && (res is Ok ==> final(w).errs() == w.errs()),
{
    writer.writeln_str(h_help)?;
    Ok(())
}

// statement fragment of embedded-cli-macros/src/command/help.rs:120
pub fn frag_04<W: crate::verif_specs::embedded_io::Write<Error = E>, E: crate::verif_specs::embedded_io::Error, F: FnMut(&mut crate::writer::Writer<'_, W, E>) -> Result<(), E>, H: crate::service::Help>(
    parent: &mut F,
    writer: &mut crate::writer::Writer<'_, W, E>,
) -> (r: Result<(), E>)
    requires old(writer).wf(),
        // ASSUMED of the continuation that prints the parent's part of the usage line (the two that exist: `|_| Ok(())` in
        // Cli::process_help and the closure emitted for a sub-command, which adds two write_str calls): callable with any
        // well-formed Writer, uses it through its API only, reports a sink failure
        forall|w: &mut crate::writer::Writer<'_, W, E>| w.wf() ==> #[trigger] (*old(parent)).requires((w,)),
        forall|w: &mut crate::writer::Writer<'_, W, E>, res: Result<(), E>| w.wf() && #[trigger] (*old(parent)).ensures((w,), res) ==>
            crate::writer::writer_api_only(w) && (res is Ok ==> final(w).errs() == w.errs()),
    ensures crate::writer::writer_api_only(writer),   // [C14,C13]
        r is Ok ==> final(writer).errs() == old(writer).errs(),   // [C14]
        forall|w: &mut crate::writer::Writer<'_, W, E>| w.wf() ==> #[trigger] (*final(parent)).requires((w,)),
        forall|w: &mut crate::writer::Writer<'_, W, E>, res: Result<(), E>| w.wf() && #[trigger] (*final(parent)).ensures((w,), res) ==>
            crate::writer::writer_api_only(w) && (res is Ok ==> final(w).errs() == w.errs()),
{
    hole(parent, writer)?;   // #acc
    writer.writeln_str("")?;
    hole(parent, writer)?;   // #elem
    Ok(())
}

// statement fragment of embedded-cli-macros/src/command/help.rs:242
pub fn frag_05<W: crate::verif_specs::embedded_io::Write<Error = E>, E: crate::verif_specs::embedded_io::Error, F: FnMut(&mut crate::writer::Writer<'_, W, E>) -> Result<(), E>, H: crate::service::Help>(
    parent: &mut F,
    writer: &mut crate::writer::Writer<'_, W, E>,
    h_name: &str,
    h_arg_help: &str,
    h_longest_arg: usize,
) -> (r: Result<(), E>)
    requires old(writer).wf(),
        // ASSUMED of the continuation that prints the parent's part of the usage line (the two that exist: `|_| Ok(())` in
        // Cli::process_help and the closure emitted for a sub-command, which adds two write_str calls): callable with any
        // well-formed Writer, uses it through its API only, reports a sink failure
        forall|w: &mut crate::writer::Writer<'_, W, E>| w.wf() ==> #[trigger] (*old(parent)).requires((w,)),
        forall|w: &mut crate::writer::Writer<'_, W, E>, res: Result<(), E>| w.wf() && #[trigger] (*old(parent)).ensures((w,), res) ==>
            crate::writer::writer_api_only(w) && (res is Ok ==> final(w).errs() == w.errs()),
    ensures crate::writer::writer_api_only(writer),   // [C14,C13]
        r is Ok ==> final(writer).errs() == old(writer).errs(),   // [C14]
        forall|w: &mut crate::writer::Writer<'_, W, E>| w.wf() ==> #[trigger] (*final(parent)).requires((w,)),
        forall|w: &mut crate::writer::Writer<'_, W, E>, res: Result<(), E>| w.wf() && #[trigger] (*final(parent)).ensures((w,), res) ==>
            crate::writer::writer_api_only(w) && (res is Ok ==> final(w).errs() == w.errs()),
{
    writer.write_list_element(h_name, h_arg_help, h_longest_arg)?;
    Ok(())
}

// statement fragment of embedded-cli-macros/src/command/help.rs:253
pub fn frag_06<W: crate::verif_specs::embedded_io::Write<Error = E>, E: crate::verif_specs::embedded_io::Error, F: FnMut(&mut crate::writer::Writer<'_, W, E>) -> Result<(), E>, H: crate::service::Help>(
    parent: &mut F,
    writer: &mut crate::writer::Writer<'_, W, E>,
) -> (r: Result<(), E>)
    requires old(writer).wf(),
        // ASSUMED of the continuation that prints the parent's part of the usage line (the two that exist: `|_| Ok(())` in
        // Cli::process_help and the closure emitted for a sub-command, which adds two write_str calls): callable with any
        // well-formed Writer, uses it through its API only, reports a sink failure
        forall|w: &mut crate::writer::Writer<'_, W, E>| w.wf() ==> #[trigger] (*old(parent)).requires((w,)),
        forall|w: &mut crate::writer::Writer<'_, W, E>, res: Result<(), E>| w.wf() && #[trigger] (*old(parent)).ensures((w,), res) ==>
            crate::writer::writer_api_only(w) && (res is Ok ==> final(w).errs() == w.errs()),
    ensures crate::writer::writer_api_only(writer),   // [C14,C13]
        r is Ok ==> final(writer).errs() == old(writer).errs(),   // [C14]
        forall|w: &mut crate::writer::Writer<'_, W, E>| w.wf() ==> #[trigger] (*final(parent)).requires((w,)),
        forall|w: &mut crate::writer::Writer<'_, W, E>, res: Result<(), E>| w.wf() && #[trigger] (*final(parent)).ensures((w,), res) ==>
            crate::writer::writer_api_only(w) && (res is Ok ==> final(w).errs() == w.errs()),
{
    writer.write_title("Arguments:\n")?;
    hole(parent, writer)?;   // #(#help_lines)*
    Ok(())
}

// statement fragment of embedded-cli-macros/src/command/help.rs:264
pub fn frag_07<W: crate::verif_specs::embedded_io::Write<Error = E>, E: crate::verif_specs::embedded_io::Error, F: FnMut(&mut crate::writer::Writer<'_, W, E>) -> Result<(), E>, H: crate::service::Help>(
    parent: &mut F,
    writer: &mut crate::writer::Writer<'_, W, E>,
) -> (r: Result<(), E>)
    requires old(writer).wf(),
        // ASSUMED of the continuation that prints the parent's part of the usage line (the two that exist: `|_| Ok(())` in
        // Cli::process_help and the closure emitted for a sub-command, which adds two write_str calls): callable with any
        // well-formed Writer, uses it through its API only, reports a sink failure
        forall|w: &mut crate::writer::Writer<'_, W, E>| w.wf() ==> #[trigger] (*old(parent)).requires((w,)),
        forall|w: &mut crate::writer::Writer<'_, W, E>, res: Result<(), E>| w.wf() && #[trigger] (*old(parent)).ensures((w,), res) ==>
            crate::writer::writer_api_only(w) && (res is Ok ==> final(w).errs() == w.errs()),
    ensures crate::writer::writer_api_only(writer),   // [C14,C13]
        r is Ok ==> final(writer).errs() == old(writer).errs(),   // [C14]
        forall|w: &mut crate::writer::Writer<'_, W, E>| w.wf() ==> #[trigger] (*final(parent)).requires((w,)),
        forall|w: &mut crate::writer::Writer<'_, W, E>, res: Result<(), E>| w.wf() && #[trigger] (*final(parent)).ensures((w,), res) ==>
            crate::writer::writer_api_only(w) && (res is Ok ==> final(w).errs() == w.errs()),
{
    <H as crate::service::Help>::list_commands(writer)?;
    Ok(())
}

// statement fragment of embedded-cli-macros/src/command/help.rs:327
pub fn frag_08<W: crate::verif_specs::embedded_io::Write<Error = E>, E: crate::verif_specs::embedded_io::Error, F: FnMut(&mut crate::writer::Writer<'_, W, E>) -> Result<(), E>, H: crate::service::Help>(
    parent: &mut F,
    writer: &mut crate::writer::Writer<'_, W, E>,
    h_name: &str,
    h_help: &str,
    h_longest_name: usize,
) -> (r: Result<(), E>)
    requires old(writer).wf(),
        // ASSUMED of the continuation that prints the parent's part of the usage line (the two that exist: `|_| Ok(())` in
        // Cli::process_help and the closure emitted for a sub-command, which adds two write_str calls): callable with any
        // well-formed Writer, uses it through its API only, reports a sink failure
        forall|w: &mut crate::writer::Writer<'_, W, E>| w.wf() ==> #[trigger] (*old(parent)).requires((w,)),
        forall|w: &mut crate::writer::Writer<'_, W, E>, res: Result<(), E>| w.wf() && #[trigger] (*old(parent)).ensures((w,), res) ==>
            crate::writer::writer_api_only(w) && (res is Ok ==> final(w).errs() == w.errs()),
    ensures crate::writer::writer_api_only(writer),   // [C14,C13]
        r is Ok ==> final(writer).errs() == old(writer).errs(),   // [C14]
        forall|w: &mut crate::writer::Writer<'_, W, E>| w.wf() ==> #[trigger] (*final(parent)).requires((w,)),
        forall|w: &mut crate::writer::Writer<'_, W, E>, res: Result<(), E>| w.wf() && #[trigger] (*final(parent)).ensures((w,), res) ==>
            crate::writer::writer_api_only(w) && (res is Ok ==> final(w).errs() == w.errs()),
{
    writer.write_list_element(h_name, h_help, h_longest_name)?;
    Ok(())
}

// statement fragment of embedded-cli-macros/src/command/help.rs:333
pub fn frag_09<W: crate::verif_specs::embedded_io::Write<Error = E>, E: crate::verif_specs::embedded_io::Error, F: FnMut(&mut crate::writer::Writer<'_, W, E>) -> Result<(), E>, H: crate::service::Help>(
    parent: &mut F,
    writer: &mut crate::writer::Writer<'_, W, E>,
) -> (r: Result<(), E>)
    requires old(writer).wf(),
        // ASSUMED of the continuation that prints the parent's part of the usage line (the two that exist: `|_| Ok(())` in
        // Cli::process_help and the closure emitted for a sub-command, which adds two write_str calls): callable with any
        // well-formed Writer, uses it through its API only, reports a sink failure
        forall|w: &mut crate::writer::Writer<'_, W, E>| w.wf() ==> #[trigger] (*old(parent)).requires((w,)),
        forall|w: &mut crate::writer::Writer<'_, W, E>, res: Result<(), E>| w.wf() && #[trigger] (*old(parent)).ensures((w,), res) ==>
            crate::writer::writer_api_only(w) && (res is Ok ==> final(w).errs() == w.errs()),
    ensures crate::writer::writer_api_only(writer),   // [C14,C13]
        r is Ok ==> final(writer).errs() == old(writer).errs(),   // [C14]
        forall|w: &mut crate::writer::Writer<'_, W, E>| w.wf() ==> #[trigger] (*final(parent)).requires((w,)),
        forall|w: &mut crate::writer::Writer<'_, W, E>, res: Result<(), E>| w.wf() && #[trigger] (*final(parent)).ensures((w,), res) ==>
            crate::writer::writer_api_only(w) && (res is Ok ==> final(w).errs() == w.errs()),
{
    writer.write_title("Options:")?;
    writer.writeln_str("")?;
    hole(parent, writer)?;   // #(#help_lines)*
    Ok(())
}

// statement fragment of embedded-cli-macros/src/command/help.rs:348
pub fn frag_10<W: crate::verif_specs::embedded_io::Write<Error = E>, E: crate::verif_specs::embedded_io::Error, F: FnMut(&mut crate::writer::Writer<'_, W, E>) -> Result<(), E>, H: crate::service::Help>(
    parent: &mut F,
    writer: &mut crate::writer::Writer<'_, W, E>,
) -> (r: Result<(), E>)
    requires old(writer).wf(),
        // ASSUMED of the continuation that prints the parent's part of the usage line (the two that exist: `|_| Ok(())` in
        // Cli::process_help and the closure emitted for a sub-command, which adds two write_str calls): callable with any
        // well-formed Writer, uses it through its API only, reports a sink failure
        forall|w: &mut crate::writer::Writer<'_, W, E>| w.wf() ==> #[trigger] (*old(parent)).requires((w,)),
        forall|w: &mut crate::writer::Writer<'_, W, E>, res: Result<(), E>| w.wf() && #[trigger] (*old(parent)).ensures((w,), res) ==>
            crate::writer::writer_api_only(w) && (res is Ok ==> final(w).errs() == w.errs()),
    ensures crate::writer::writer_api_only(writer),   // [C14,C13]
        r is Ok ==> final(writer).errs() == old(writer).errs(),   // [C14]
        forall|w: &mut crate::writer::Writer<'_, W, E>| w.wf() ==> #[trigger] (*final(parent)).requires((w,)),
        forall|w: &mut crate::writer::Writer<'_, W, E>, res: Result<(), E>| w.wf() && #[trigger] (*final(parent)).ensures((w,), res) ==>
            crate::writer::writer_api_only(w) && (res is Ok ==> final(w).errs() == w.errs()),
{
    writer.write_str(" [COMMAND]")?;
    Ok(())
}

// statement fragment of embedded-cli-macros/src/command/help.rs:352
pub fn frag_11<W: crate::verif_specs::embedded_io::Write<Error = E>, E: crate::verif_specs::embedded_io::Error, F: FnMut(&mut crate::writer::Writer<'_, W, E>) -> Result<(), E>, H: crate::service::Help>(
    parent: &mut F,
    writer: &mut crate::writer::Writer<'_, W, E>,
) -> (r: Result<(), E>)
    requires old(writer).wf(),
        // ASSUMED of the continuation that prints the parent's part of the usage line (the two that exist: `|_| Ok(())` in
        // Cli::process_help and the closure emitted for a sub-command, which adds two write_str calls): callable with any
        // well-formed Writer, uses it through its API only, reports a sink failure
        forall|w: &mut crate::writer::Writer<'_, W, E>| w.wf() ==> #[trigger] (*old(parent)).requires((w,)),
        forall|w: &mut crate::writer::Writer<'_, W, E>, res: Result<(), E>| w.wf() && #[trigger] (*old(parent)).ensures((w,), res) ==>
            crate::writer::writer_api_only(w) && (res is Ok ==> final(w).errs() == w.errs()),
    ensures crate::writer::writer_api_only(writer),   // [C14,C13]
        r is Ok ==> final(writer).errs() == old(writer).errs(),   // [C14]
        forall|w: &mut crate::writer::Writer<'_, W, E>| w.wf() ==> #[trigger] (*final(parent)).requires((w,)),
        forall|w: &mut crate::writer::Writer<'_, W, E>, res: Result<(), E>| w.wf() && #[trigger] (*final(parent)).ensures((w,), res) ==>
            crate::writer::writer_api_only(w) && (res is Ok ==> final(w).errs() == w.errs()),
{
    writer.write_str(" <COMMAND>")?;
    Ok(())
}

// statement fragment of embedded-cli-macros/src/command/help.rs:364
pub fn frag_12<W: crate::verif_specs::embedded_io::Write<Error = E>, E: crate::verif_specs::embedded_io::Error, F: FnMut(&mut crate::writer::Writer<'_, W, E>) -> Result<(), E>, H: crate::service::Help>(
    parent: &mut F,
    writer: &mut crate::writer::Writer<'_, W, E>,
    h_line: &str,
) -> (r: Result<(), E>)
    requires old(writer).wf(),
        // ASSUMED of the continuation that prints the parent's part of the usage line (the two that exist: `|_| Ok(())` in
        // Cli::process_help and the closure emitted for a sub-command, which adds two write_str calls): callable with any
        // well-formed Writer, uses it through its API only, reports a sink failure
        forall|w: &mut crate::writer::Writer<'_, W, E>| w.wf() ==> #[trigger] (*old(parent)).requires((w,)),
        forall|w: &mut crate::writer::Writer<'_, W, E>, res: Result<(), E>| w.wf() && #[trigger] (*old(parent)).ensures((w,), res) ==>
            crate::writer::writer_api_only(w) && (res is Ok ==> final(w).errs() == w.errs()),
    ensures crate::writer::writer_api_only(writer),   // [C14,C13]
        r is Ok ==> final(writer).errs() == old(writer).errs(),   // [C14]
        forall|w: &mut crate::writer::Writer<'_, W, E>| w.wf() ==> #[trigger] (*final(parent)).requires((w,)),
        forall|w: &mut crate::writer::Writer<'_, W, E>, res: Result<(), E>| w.wf() && #[trigger] (*final(parent)).ensures((w,), res) ==>
            crate::writer::writer_api_only(w) && (res is Ok ==> final(w).errs() == w.errs()),
{
    writer.write_str(" ")?;
    writer.write_str(h_line)?;
    Ok(())
}

// statement fragment of embedded-cli-macros/src/command/help.rs:373
pub fn frag_13<W: crate::verif_specs::embedded_io::Write<Error = E>, E: crate::verif_specs::embedded_io::Error, F: FnMut(&mut crate::writer::Writer<'_, W, E>) -> Result<(), E>, H: crate::service::Help>(
    parent: &mut F,
    writer: &mut crate::writer::Writer<'_, W, E>,
) -> (r: Result<(), E>)
    requires old(writer).wf(),
        // ASSUMED of the continuation that prints the parent's part of the usage line (the two that exist: `|_| Ok(())` in
        // Cli::process_help and the closure emitted for a sub-command, which adds two write_str calls): callable with any
        // well-formed Writer, uses it through its API only, reports a sink failure
        forall|w: &mut crate::writer::Writer<'_, W, E>| w.wf() ==> #[trigger] (*old(parent)).requires((w,)),
        forall|w: &mut crate::writer::Writer<'_, W, E>, res: Result<(), E>| w.wf() && #[trigger] (*old(parent)).ensures((w,), res) ==>
            crate::writer::writer_api_only(w) && (res is Ok ==> final(w).errs() == w.errs()),
    ensures crate::writer::writer_api_only(writer),   // [C14,C13]
        r is Ok ==> final(writer).errs() == old(writer).errs(),   // [C14]
        forall|w: &mut crate::writer::Writer<'_, W, E>| w.wf() ==> #[trigger] (*final(parent)).requires((w,)),
        forall|w: &mut crate::writer::Writer<'_, W, E>, res: Result<(), E>| w.wf() && #[trigger] (*final(parent)).ensures((w,), res) ==>
            crate::writer::writer_api_only(w) && (res is Ok ==> final(w).errs() == w.errs()),
{
    writer.write_str(" [OPTIONS]")?;
    Ok(())
}

// statement fragment of embedded-cli-macros/src/command/help.rs:378
pub fn frag_14<W: crate::verif_specs::embedded_io::Write<Error = E>, E: crate::verif_specs::embedded_io::Error, F: FnMut(&mut crate::writer::Writer<'_, W, E>) -> Result<(), E>, H: crate::service::Help>(
    parent: &mut F,
    writer: &mut crate::writer::Writer<'_, W, E>,
    h_name: &str,
) -> (r: Result<(), E>)
    requires old(writer).wf(),
        // ASSUMED of the continuation that prints the parent's part of the usage line (the two that exist: `|_| Ok(())` in
        // Cli::process_help and the closure emitted for a sub-command, which adds two write_str calls): callable with any
        // well-formed Writer, uses it through its API only, reports a sink failure
        forall|w: &mut crate::writer::Writer<'_, W, E>| w.wf() ==> #[trigger] (*old(parent)).requires((w,)),
        forall|w: &mut crate::writer::Writer<'_, W, E>, res: Result<(), E>| w.wf() && #[trigger] (*old(parent)).ensures((w,), res) ==>
            crate::writer::writer_api_only(w) && (res is Ok ==> final(w).errs() == w.errs()),
    ensures crate::writer::writer_api_only(writer),   // [C14,C13]
        r is Ok ==> final(writer).errs() == old(writer).errs(),   // [C14]
        forall|w: &mut crate::writer::Writer<'_, W, E>| w.wf() ==> #[trigger] (*final(parent)).requires((w,)),
        forall|w: &mut crate::writer::Writer<'_, W, E>, res: Result<(), E>| w.wf() && #[trigger] (*final(parent)).ensures((w,), res) ==>
            crate::writer::writer_api_only(w) && (res is Ok ==> final(w).errs() == w.errs()),
{
    writer.write_title("Usage:")?;
    writer.write_str(" ")?;
    parent(writer)?;
    writer.write_str(h_name)?;
    hole(parent, writer)?;   // #options
    hole(parent, writer)?;   // #(#usage_args)*
    writer.writeln_str("")?;
    Ok(())
}

impl crate::service::Help for DerivedHelpCommand {
    fn command_count() -> usize { crate::verif_specs::derived_command_count() }

    fn list_commands<W: crate::verif_specs::embedded_io::Write<Error = E>, E: crate::verif_specs::embedded_io::Error>(
        writer: &mut crate::writer::Writer<'_, W, E>,
    ) -> Result<(), E> {
        hole_w(writer)?;
        Ok(())
    }

    fn command_help<
        W: crate::verif_specs::embedded_io::Write<Error = E>,
        E: crate::verif_specs::embedded_io::Error,
        F: FnMut(&mut crate::writer::Writer<'_, W, E>) -> Result<(), E>,
    >(
        parent: &mut F,
        command: crate::command::RawCommand<'_>,
        writer: &mut crate::writer::Writer<'_, W, E>,
    ) -> Result<(), crate::service::HelpError<E>> {
        match command.name() {
            "cmd-one" => {
                match hole(parent, writer) { Ok(__v) => __v, Err(__e) => return Err(core::convert::From::from(__e)) };
            },
            "cmd-two" => {
                match hole(parent, writer) { Ok(__v) => __v, Err(__e) => return Err(core::convert::From::from(__e)) };
            },
            _ => return Err(crate::service::HelpError::UnknownCommand),
        }

        Ok(())
    }
}
