#[derive(Debug, Eq, PartialEq)]
pub struct Tokens<'a> {
    empty: bool,
    tokens: &'a str,
}

impl<'a> Clone for Tokens<'a> {
    fn clone(&self) -> Self {
//@ ensures r == *self,   // [~C01,~C07,~C08,~C12]
        Tokens { empty: self.empty, tokens: self.tokens }
    }
}

impl<'a> Tokens<'a> {
//@ /// NUL-separated token text
//@ pub closed spec fn raw(&self) -> Seq<u8> { self.tokens.spec_bytes() }
//@ pub closed spec fn is_empty_spec(&self) -> bool { self.empty }
//@ /// the token list this value stands for
//@ pub open spec fn view(&self) -> Seq<Seq<u8>> { tokens_view(self.raw(), self.is_empty_spec()) }
    pub fn new(input: &'a mut str) -> Self {
//@ ensures
//@     // C07: for every NUL-free line the in-place tokenisation yields exactly the tokens of the documented rules
//@     nul_free(old(input).spec_bytes()) ==> r.view() == tokenize(old(input).spec_bytes()),   // [C07,~C01,~C08,~C12,~C17]
//@     nul_free(old(input).spec_bytes()) ==> r.is_empty_spec() == (tokenize(old(input).spec_bytes()).len() == 0),   // [C07,~C01,~C08,~C12]
//@     nul_free(old(input).spec_bytes()) ==> r.raw() == join0(tokenize(old(input).spec_bytes())),   // [C07]
        // SAFETY: bytes are modified correctly, so they remain utf8
        let bytes = unsafe { input.as_bytes_mut() };
//@ let ghost line = bytes@;
//@ let ghost mut p: Seq<u8> = Seq::empty();
//@ proof { encode_utf8_valid_utf8(old(input)@); }

        let mut insert = 0;
        let mut empty = true;

        enum Mode {
            Space,
            Normal,
            Quoted,
            Unescape,
        }

        let mut mode = Mode::Space;
//@ proof {
//@     assert(line.subrange(0, 0) =~= Seq::<u8>::empty());
//@     assert(bytes@.subrange(0, 0) =~= Seq::<u8>::empty());
//@     assert(Seq::<u8>::empty().subrange(0, 0) =~= Seq::<u8>::empty());
//@     assert(vp(Seq::<u8>::empty(), Seq::<u8>::empty()));
//@ }

        for cursor_pos in 0..bytes.len() {
//@ for_iter it
//@ invariant
//@     it.iter.end == line.len(),
//@     bytes@.len() == line.len(), valid_utf8(line),
//@     forall|i: int| cursor_pos <= i < line.len() ==> bytes@[i] == line[i],
//@     insert <= cursor_pos,   // [C03]
//@     insert > 0 ==> !empty,   // [C03]
//@     (mode is Normal || mode is Quoted || mode is Unescape) ==> !empty,   // [C03]
//@     ((mode is Space && !empty) || mode is Quoted || mode is Unescape) ==> insert < cursor_pos,   // [C03]
//@     // UTF-8: what has been written is well-formed text plus the octets of the scalar being copied
//@     p == scan(Seq::empty(), line.subrange(0, cursor_pos as int)).0,   // [C02]
//@     vp(bytes@.subrange(0, insert as int), p),   // [C02]
//@     p.len() > 0 ==> (mode is Normal || mode is Quoted),   // [C02]
//@     // C07: the written prefix is the NUL-joined image of the spec tokenizer's state on the consumed prefix
//@     nul_free(line) ==> ({ let st = t_run(line.subrange(0, cursor_pos as int));
//@        &&& (mode is Space <==> st.mode is Space) &&& (mode is Normal <==> st.mode is Normal)
//@        &&& (mode is Quoted <==> st.mode is Quoted) &&& (mode is Unescape <==> st.mode is Unescape)
//@        &&& empty == (t_finish(st).len() == 0)
//@        &&& bytes@.subrange(0, insert as int) == join0(t_finish(st)) }),   // [C07]
            let byte = bytes[cursor_pos];
//@ let ghost out0 = bytes@.subrange(0, insert as int);
//@ let ghost insert0 = insert;
//@ let ghost empty0 = empty;
//@ proof {
//@     let pre = line.subrange(0, cursor_pos as int);
//@     let nxt = line.subrange(0, cursor_pos + 1);
//@     assert(nxt.drop_last() =~= pre);
//@     assert(nxt.last() == byte);
//@     lemma_valid_next_good(line, cursor_pos as int);   // [C02]
//@     lemma_run_wf(pre);
//@     let st = t_run(pre);
//@     let ts = t_finish(st);
//@     if st.cur is Some { lemma_join_push_last(ts, byte); assert(ts.drop_last() =~= st.done); }
//@     lemma_join_push_token(ts, seq![byte]);
//@     lemma_join_push_token(ts, Seq::<u8>::empty());
//@ }
            match mode {
                Mode::Space => {
                    if byte == b'"' {
                        mode = Mode::Quoted;
                        // separator is needed after any previous token, even if it was empty
                        if !empty {
                            bytes[insert] = 0;
                            insert += 1;
                        }
                        empty = false;
                    } else if byte != b' ' && byte != 0 {
                        mode = Mode::Normal;
                        // separator is needed after any previous token, even if it was empty
                        if !empty {
                            bytes[insert] = 0;
                            insert += 1;
                        }
                        empty = false;
                        bytes[insert] = byte;
                        insert += 1;
                    }
                }
                Mode::Normal => {
                    if byte == b' ' || byte == 0 {
                        mode = Mode::Space;
                    } else {
                        bytes[insert] = byte;
                        insert += 1;
                    }
                }
                Mode::Quoted => {
                    if byte == b'"' || byte == 0 {
                        mode = Mode::Space;
                    } else if byte == b'\\' {
                        mode = Mode::Unescape;
                    } else {
                        bytes[insert] = byte;
                        insert += 1;
                    }
                }
                Mode::Unescape => {
                    bytes[insert] = byte;
                    insert += 1;
                    mode = Mode::Quoted;
                }
            }
//@ proof {   // [C02]
//@     let out = bytes@.subrange(0, insert as int);
//@     // UTF-8 bookkeeping: one or two octets were appended, or an ASCII delimiter was skipped
//@     if insert == insert0 {
//@         assert(out =~= out0);
//@         assert(byte < 0x80);
//@     } else if insert == insert0 + 1 {
//@         assert(out =~= out0.push(out[insert0 as int]));
//@         if out[insert0 as int] == byte {
//@             lemma_vp_step(out0, p, byte);
//@         } else {
//@             assert(out[insert0 as int] == 0 && byte < 0x80);
//@             lemma_vp_step(out0, p, 0);
//@         }
//@     } else {
//@         assert(out =~= out0.push(0).push(byte));
//@         lemma_vp_step(out0, p, 0);
//@         lemma_vp_step(out0.push(0), Seq::empty(), byte);
//@     }
//@     p = acc_step(p, byte).0;
//@ }
//@ proof {   // [C07]
//@     let st2 = t_run(line.subrange(0, cursor_pos + 1));
//@     if nul_free(line) {
//@         assert(bytes@.subrange(0, insert as int) =~= join0(t_finish(st2)));
//@     }
//@ }
        }

//@ proof {
//@     assert(line.subrange(0, line.len() as int) =~= line);
//@     lemma_scan_valid(line);
//@     assert(p.len() == 0);
//@     let out = bytes@.subrange(0, insert as int);
//@     assert(out.subrange(0, out.len() as int) =~= out);
//@     if nul_free(line) {
//@         lemma_tokens_nul_free(line);
//@         if tokenize(line).len() > 0 { lemma_split_join(tokenize(line)); }
//@     }
//@ }
        // SAFETY: bytes are still a valid utf8 sequence
        // insert is inside bytes slice
        let tokens = unsafe { core::str::from_utf8_unchecked(bytes.get_unchecked(..insert)) };
        Self { empty, tokens }
    }

    pub fn from_raw(tokens: &'a str, is_empty: bool) -> Self {
//@ ensures r.raw() == tokens.spec_bytes(), r.is_empty_spec() == is_empty,   // [~C01,~C07,~C08,~C12]
        Self {
            empty: is_empty,
            tokens,
        }
    }

    /// Returns raw representation of tokens (delimited with 0)
    pub fn into_raw(self) -> &'a str {
//@ ensures r.spec_bytes() == self.raw(),   // [~C01,~C07,~C08,~C12]
        self.tokens
    }

    pub fn iter(&self) -> TokensIter<'a> {
//@ ensures r.view() == self.view(), r.raw() == self.raw(), r.is_empty_spec() == self.is_empty_spec(),   // [~C01,~C07,~C08,~C12]
        TokensIter::new(self.tokens, self.empty)
    }

    pub fn is_empty(&self) -> bool {
//@ ensures r == self.is_empty_spec(),   // [~C01,~C07,~C08,~C12]
        self.empty
    }
}

#[derive(Debug)]
pub struct TokensIter<'a> {
    tokens: &'a str,
    empty: bool,
}

impl<'a> Clone for TokensIter<'a> {
    fn clone(&self) -> Self {
//@ ensures r == *self,   // [~C01,~C07,~C08,~C12]
        TokensIter { tokens: self.tokens, empty: self.empty }
    }
}

impl<'a> TokensIter<'a> {
//@ pub closed spec fn raw(&self) -> Seq<u8> { self.tokens.spec_bytes() }
//@ pub closed spec fn is_empty_spec(&self) -> bool { self.empty }
//@ /// the tokens still to be yielded
//@ pub open spec fn view(&self) -> Seq<Seq<u8>> { tokens_view(self.raw(), self.is_empty_spec()) }
    pub fn new(tokens: &'a str, empty: bool) -> Self {
//@ ensures r.raw() == tokens.spec_bytes(), r.is_empty_spec() == empty,   // [~C01,~C07,~C08,~C12]
        Self { tokens, empty }
    }

    pub fn into_tokens(self) -> Tokens<'a> {
//@ ensures r.raw() == self.raw(), r.is_empty_spec() == self.is_empty_spec(), r.view() == self.view(),   // [~C01,~C07,~C08,~C12]
        Tokens {
            empty: self.empty,
            tokens: self.tokens,
        }
    }
}

impl<'a> TokensIter<'a> {
    pub fn next(&mut self) -> Option<&'a str> {
//@ ensures
//@     old(self).view().len() == 0 ==> r is None && final(self).view() == old(self).view(),   // [C07,~C01,~C08,~C12]
//@     old(self).view().len() > 0 ==> r is Some && r.unwrap().spec_bytes() == old(self).view()[0]
//@         && final(self).view() == old(self).view().drop_first(),   // [C07,~C01,~C08,~C12]
//@ ---
//@ proof {
//@     broadcast use axiom_str_len_bound;
//@     encode_utf8_valid_utf8(self.tokens@);
//@     lemma_first0(self.tokens.spec_bytes());
//@ }
        if self.empty {
            return None;
        }
        if let Some(pos) = crate::verif_specs::position_eq(self.tokens.as_bytes(), 0) {
            // SAFETY: pos is inside args slice
//@ proof {
//@     let s = self.tokens.spec_bytes();
//@     lemma_first0_is(s, pos as int);
//@     lemma_ascii_boundaries(s, pos as int);
//@     is_char_boundary_start_end_of_seq(s);
//@     assert(split0(s).drop_first() =~= split0(s.subrange(pos + 1, s.len() as int)));
//@ }
            let (arg, other) = unsafe {
                (
                    self.tokens.get_unchecked(..pos),
                    self.tokens.get_unchecked(pos + 1..),
                )
            };
            self.tokens = other;
            Some(arg)
        } else {
//@ proof {
//@     let s = self.tokens.spec_bytes();
//@     lemma_first0_is(s, s.len() as int);
//@     assert(split0(s).drop_first() =~= Seq::<Seq<u8>>::empty());
//@ }
            self.empty = true;
            Some(self.tokens)
        }
    }
}

