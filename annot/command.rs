use core::marker::PhantomData;

use crate::verif_specs::embedded_io::Write;

use crate::{
    arguments::ArgList,
    cli::CliHandle,
    service::{Autocomplete, CommandProcessor, FromRaw, Help, ParseError, ProcessError},
    token::Tokens,
};

#[cfg(feature = "autocomplete")]
use crate::autocomplete::{Autocompletion, Request};

#[cfg(feature = "help")]
use crate::service::HelpError;

#[derive(Debug, Eq, PartialEq)]
pub struct RawCommand<'a> {
    /// Name of the command.
    ///
    /// In `set led 1 1` name is `set`
    name: &'a str,

    /// Argument list of the command
    ///
    /// In `set led 1 1` arguments is `led 1 1`
    args: ArgList<'a>,
}

impl<'a> Clone for RawCommand<'a> {
    fn clone(&self) -> Self {
//@ ensures r == *self,   // [~C01,~C07,~C08,~C12]
        RawCommand { name: self.name, args: self.args.clone() }
    }
}

impl<'a> RawCommand<'a> {
//@ /// command name and argument tokens (abstraction function)
//@ pub closed spec fn name_bytes(&self) -> Seq<u8> { self.name.spec_bytes() }
//@ pub closed spec fn arg_tokens(&self) -> Seq<Seq<u8>> { self.args.tokens() }
    /// Crate raw command from input tokens
    pub(crate) fn from_tokens(tokens: &Tokens<'a>) -> Option<Self> {
//@ ensures
//@     // C01: the command name is the first token of the line and the argument list is exactly the rest
//@     tokens.view().len() == 0 ==> r is None,   // [C01,~C07,~C08,~C12]
//@     tokens.view().len() > 0 ==> r is Some && r.unwrap().name_bytes() == tokens.view()[0]
//@         && r.unwrap().arg_tokens() == tokens.view().drop_first(),   // [C01,~C07,~C08,~C12]
        let mut iter = tokens.iter();
        let name = iter.next()?;
        let tokens = iter.into_tokens();

        Some(RawCommand {
            name,
            args: ArgList::new(tokens),
        })
    }

    pub fn new(name: &'a str, args: ArgList<'a>) -> Self {
//@ ensures r.name_bytes() == name.spec_bytes(), r.arg_tokens() == args.tokens(),   // [~C01,~C07,~C08,~C12]
        Self { name, args }
    }

    pub fn args(&self) -> ArgList<'a> {
//@ ensures r.tokens() == self.arg_tokens(),   // [~C01,~C07,~C08,~C12]
        self.args.clone()
    }

    pub fn name(&self) -> &'a str {
//@ ensures r.spec_bytes() == self.name_bytes(),   // [~C01,~C07,~C08,~C12]
        self.name
    }

}

impl Autocomplete for RawCommand<'_> {
//@ /// a raw command knows no names
//@ open spec fn names() -> Seq<Seq<u8>> { Seq::empty() }
    #[cfg(feature = "autocomplete")]
    fn autocomplete(_p7: Request<'_>, _p8: &mut Autocompletion<'_>) {
        // noop
//@ proof { assert(_p8.cands@ + conts(Seq::<Seq<u8>>::empty(), _p7.name()) =~= _p8.cands@); }
    }
}

impl Help for RawCommand<'_> {
    #[cfg(feature = "help")]
    fn command_count() -> usize {
        0
    }

    #[cfg(feature = "help")]
    fn list_commands<W: Write<Error = E>, E: crate::verif_specs::embedded_io::Error>(
        _p9: &mut crate::writer::Writer<'_, W, E>,
    ) -> Result<(), E> {
        // noop
        Ok(())
    }

    #[cfg(feature = "help")]
    fn command_help<
        W: Write<Error = E>,
        E: crate::verif_specs::embedded_io::Error,
        F: FnMut(&mut crate::writer::Writer<'_, W, E>) -> Result<(), E>,
    >(
        _p10: &mut F,
        _p11: RawCommand<'_>,
        _p12: &mut crate::writer::Writer<'_, W, E>,
    ) -> Result<(), HelpError<E>> {
        // noop
        Err(HelpError::UnknownCommand)
    }
}

impl<'a> FromRaw<'a> for RawCommand<'a> {
    fn parse(raw: RawCommand<'a>) -> Result<Self, ParseError<'a>> {
        Ok(raw)
    }
}

