use crate::{buffer::Buffer, utils};

#[derive(Debug)]
pub struct History<B: Buffer> {
    /// Buffer that stores element bytes.
    /// Elements are stored null separated, thus no null
    /// bytes are allowed in elements themselves
    /// Newer elements are placed to the right of previous element
    buffer: B,

    /// Index of first byte of currently selected element
    cursor: Option<usize>,

    /// How many bytes of buffer are already used by elements
    used: usize,
}

impl<B: Buffer> History<B> {
//@ /// recorded lines, oldest first (abstraction function)
//@ #[verifier::opaque]
//@ pub closed spec fn entries(&self) -> Seq<Seq<u8>> { hist_entries(self.buffer.bytes().subrange(0, self.used as int)) }
//@ pub closed spec fn cap(&self) -> int { self.buffer.bytes().len() as int }
//@ /// index of the entry currently recalled, None when not navigating
//@ #[verifier::opaque]
//@ pub closed spec fn nav(&self) -> Option<int> {
//@     match self.cursor { None => None, Some(c) => Some(nav_idx(self.entries(), c as int)) }
//@ }
//@ /// representation invariant
//@ #[verifier::opaque]
//@ pub closed spec fn wf(&self) -> bool {
//@     &&& self.used <= self.buffer.bytes().len()
//@     &&& entries_ok(self.entries())
//@     &&& distinct(self.entries())
//@     &&& flat(self.entries()) == self.buffer.bytes().subrange(0, self.used as int)
//@     &&& match self.cursor {
//@             Some(c) => exists|i: int| 0 <= i < self.entries().len() && start(self.entries(), i) == c,
//@             None => true,
//@         }
//@ }
//@ /// what wf means for the concrete fields (used at the start of every operation)
//@ proof fn lemma_rep(&self)
//@     requires self.wf()
//@     ensures
//@         self.used <= self.buffer.bytes().len(),
//@         entries_ok(self.entries()), distinct(self.entries()),
//@         self.buffer.bytes().subrange(0, self.used as int) == flat(self.entries()),
//@         self.used == hsize(self.entries()),
//@         hsize(self.entries()) <= self.cap(),
//@         self.entries().len() == 0 <==> self.used == 0,
//@         self.cursor is Some <==> self.nav() is Some,
//@         self.nav() matches Some(i) ==> 0 <= i < self.entries().len() && self.cursor == Some(start(self.entries(), i) as usize)
//@             && 0 <= start(self.entries(), i) < self.used,
//@ {
//@     reveal(History::wf); reveal(History::nav);
//@     let es = self.entries();
//@     lemma_flat_len(es);
//@     lemma_start_lower(es, es.len() as int);
//@     assert(self.buffer.bytes().subrange(0, self.used as int).len() == self.used);
//@     if self.cursor is Some {
//@         let c = self.cursor.unwrap();
//@         let i = nav_idx(es, c as int);
//@         assert(0 <= i < es.len() && start(es, i) == c);
//@         lemma_start_mono(es, i, es.len() as int);
//@     }
//@ }
//@ /// the concrete fields represent (es, nav) (used at the end of every operation)
//@ proof fn lemma_establish(&self, es: Seq<Seq<u8>>, nav: Option<int>)
//@     requires
//@         self.used <= self.buffer.bytes().len(), entries_ok(es), distinct(es),
//@         self.buffer.bytes().subrange(0, self.used as int) == flat(es),
//@         match nav { Some(i) => 0 <= i < es.len() && self.cursor == Some(start(es, i) as usize), None => self.cursor is None },
//@     ensures self.wf(), self.entries() == es, self.nav() == nav,
//@ {
//@     reveal(History::wf); reveal(History::nav); reveal(History::entries);
//@     lemma_unflat_flat(es);
//@     lemma_flat_len(es);
//@     assert(self.buffer.bytes().subrange(0, self.used as int).len() == self.used);
//@     if nav is Some {
//@         let i = nav.unwrap();
//@         lemma_nav_idx(es, i);
//@         lemma_start_nonneg(es, i);
//@         lemma_start_mono(es, i, es.len() as int);
//@         assert(start(es, i) as usize as int == start(es, i));
//@         assert(0 <= i < self.entries().len() && start(self.entries(), i) == self.cursor.unwrap());
//@     }
//@ }
    pub fn new(buffer: B) -> Self {
//@ ensures r.wf(), r.entries() == Seq::<Seq<u8>>::empty(), r.nav() is None, r.cap() == buffer.bytes().len(),   // [C10,~C02,~C03,~C01]
//@ proof { assert(buffer.bytes().subrange(0, 0) =~= Seq::<u8>::empty()); }   // [C10]
//@ let r =
        Self {
            buffer,
            cursor: None,
            used: 0,
        }
//@ ;
//@ proof { reveal(distinct); r.lemma_establish(Seq::empty(), None); }   // [C10]
//@ r
    }

    /// Return next element from history, that is newer, than currently selected.
    /// Return None if there is no newer elements
    pub fn next_newer(&mut self) -> Option<&str> {
//@ requires old(self).wf(),
//@ ensures
//@     final(self).wf(), final(self).entries() == old(self).entries(), final(self).cap() == old(self).cap(),   // [C10,~C02,~C03,~C01]
//@     // C10: Down moves one entry towards the newest and shows it byte for byte; past the newest leaves navigation
//@     final(self).nav() == nav_newer(old(self).entries().len() as int, old(self).nav()),   // [C10]
//@     match nav_newer(old(self).entries().len() as int, old(self).nav()) {
//@         Some(t) => r is Some && r.unwrap().spec_bytes() == old(self).entries()[t],
//@         None => r is None,
//@     },   // [C10]
//@ ---
//@ let ghost es = self.entries();
//@ let ghost nav = self.nav();
//@ proof { self.lemma_rep(); }   // [C10]
        match self.cursor {
            Some(cursor) => {
//@ let ghost t0 = nav.unwrap();
//@ proof {   // [C10]
//@     lemma_flat_entry(es, t0);
//@     lemma_flat_entry_nul_free(es, t0);
//@     lemma_start_mono(es, t0, es.len() as int);
//@     lemma_flat_len(es);
//@     if t0 + 1 < es.len() { lemma_flat_entry(es, t0 + 1); lemma_flat_entry_nul_free(es, t0 + 1); lemma_start_mono(es, t0 + 1, es.len() as int); }
//@     assert forall|j: int| 0 <= j < self.used implies self.buffer.bytes()[j] == flat(es)[j] by {
//@         assert(self.buffer.bytes().subrange(0, self.used as int)[j] == self.buffer.bytes()[j]);
//@     }
//@ }
//@ let ghost win = self.buffer.bytes().subrange(cursor as int, self.used - 1);
//@ proof {   // [C10]
//@     assert(cursor == start(es, t0));
//@     assert forall|k: int| 0 <= k < win.len() implies win[k] == flat(es)[cursor + k] by { }
//@     assert forall|k: int| 0 <= k < es[t0].len() && k < win.len() implies win[k] != 0 by { assert(flat(es)[start(es, t0) + k] != 0); }
//@     if t0 + 1 < es.len() { assert(win[es[t0].len() as int] == 0); }
//@     else { assert(win.len() == es[t0].len()); }
//@ }
                let new_cursor = (match crate::verif_specs::position_eq(&self.buffer.as_slice()[cursor..self.used - 1], 0) { Some(pos) => Some(cursor + pos + 1), None => None });
                // null byte of last element was not included
                // so if we found 0, it means there is at least
                // one more element after current
                if let Some(new_cursor) = new_cursor {
//@ proof {   // [C10]
//@     // the NUL found ends entry t0, so new_cursor is the start of entry t0+1
//@     assert(new_cursor == start(es, t0) + es[t0].len() + 1);
//@     if t0 + 1 >= es.len() {
//@         // no entry after t0: the only NUL in [cursor, used-1) would be its terminator at used-1
//@         assert(false);
//@     }
//@     assert(new_cursor == start(es, t0 + 1));
//@ }
                    // new_cursor is pointing to first byte of next element
                    let new_len = crate::verif_specs::position_eq(&self.buffer.as_slice()[new_cursor..], 0);

//@ let ghost win2 = self.buffer.bytes().subrange(new_cursor as int, self.buffer.bytes().len() as int);
//@ proof {   // [C10]
//@     assert(self.buffer.bytes()[start(es, t0 + 1) + es[t0 + 1].len()] == 0);
//@     assert forall|k: int| 0 <= k < es[t0 + 1].len() implies win2[k] != 0 by { assert(flat(es)[start(es, t0 + 1) + k] != 0); assert(win2[k] == self.buffer.bytes()[new_cursor + k]); }
//@     assert(win2[es[t0 + 1].len() as int] == 0);
//@ }
                    // SAFETY: All elements are null terminated, including last element
                    let element_end = unsafe { new_cursor + new_len.unwrap_unchecked() };
//@ proof {   // [C10]
//@     assert(element_end == start(es, t0 + 1) + es[t0 + 1].len());
//@     assert(self.buffer.bytes().subrange(new_cursor as int, element_end as int) =~= es[t0 + 1]);
//@     assert(entry_ok(es[t0 + 1]));
//@ }

                    let element = unsafe {
                        core::str::from_utf8_unchecked(
                            &self.buffer.as_slice()[new_cursor..element_end],
                        )
                    };
                    self.cursor = Some(new_cursor);
//@ proof { self.lemma_establish(es, Some(t0 + 1)); }   // [C10]
                    Some(element)
                } else {
//@ proof {   // [C10]
//@     if t0 + 1 < es.len() {
//@         // the terminator of entry t0 lies in the searched range, so a NUL would have been found
//@         assert(self.buffer.bytes()[start(es, t0) + es[t0].len()] == 0);
//@         assert(false);
//@     }
//@ }
                    self.cursor = None;
//@ proof { self.lemma_establish(es, None); }   // [C10]
                    None
                }
            }
            _ => None,
        }
    }

    /// Return next element from history, that is older, than currently selected.
    /// Return None if there is no older elements
    pub fn next_older(&mut self) -> Option<&str> {
//@ requires old(self).wf(),
//@ ensures
//@     final(self).wf(), final(self).entries() == old(self).entries(), final(self).cap() == old(self).cap(),   // [C10,~C02,~C03,~C01]
//@     // C10: Up moves to the newest entry first, then one entry older each time, shown byte for byte;
//@     // past the oldest nothing changes
//@     match nav_older(old(self).entries().len() as int, old(self).nav()) {
//@         Some(t) => r is Some && r.unwrap().spec_bytes() == old(self).entries()[t] && final(self).nav() == Some(t),
//@         None => r is None && final(self).nav() == old(self).nav(),
//@     },   // [C10]
//@ ---
//@ let ghost es = self.entries();
//@ let ghost nav = self.nav();
//@ proof {   // [C10]
//@     self.lemma_rep();
//@     if nav is Some { lemma_start_mono(es, 0, nav.unwrap()); lemma_start_lower(es, nav.unwrap()); }
//@     if nav is Some && self.cursor == Some(0usize) { lemma_start_inj(es, nav.unwrap(), 0); }
//@ }
        let cursor = match self.cursor {
            Some(cursor) => if cursor > 0 { cursor } else { return None },
            None => if self.used > 0 { self.used } else { return None },
        };
//@ let ghost t: int = match nav { Some(i) => i - 1, None => es.len() - 1 };
//@ proof {   // [C10]
//@     assert(0 <= t < es.len());
//@     lemma_flat_entry(es, t);
//@     lemma_flat_entry_nul_free(es, t);
//@     lemma_start_mono(es, t, t + 1);
//@     assert(cursor == start(es, t + 1));
//@     if t > 0 { lemma_flat_entry(es, t - 1); lemma_start_mono(es, t - 1, t); }
//@     assert forall|j: int| 0 <= j < self.used implies self.buffer.bytes()[j] == flat(es)[j] by {
//@         assert(self.buffer.bytes().subrange(0, self.used as int)[j] == self.buffer.bytes()[j]);
//@     }
//@ }

        let new_cursor = (match crate::verif_specs::rposition_eq(&self.buffer.as_slice()[..cursor - 1], 0) { Some(pos) => cursor - 1 - pos, None => 0 });
//@ proof {   // [C10]
//@     assert(new_cursor == start(es, t));
//@     assert(self.buffer.bytes().subrange(new_cursor as int, cursor - 1) =~= es[t]);
//@     assert(entry_ok(es[t]));
//@ }
        let element = unsafe {
            core::str::from_utf8_unchecked(&self.buffer.as_slice()[new_cursor..cursor - 1])
        };
        self.cursor = Some(new_cursor);
//@ proof { self.lemma_establish(es, Some(t)); }   // [C10]
        Some(element)
    }

    /// Push given text to history. Text must not contain any null bytes. Otherwise
    /// text is not pushed to history and just ignored.
//@ #[verifier::rlimit(300)]
    pub fn push(&mut self, text: &str) {
//@ requires old(self).wf(),
//@ ensures
//@     final(self).wf(), final(self).cap() == old(self).cap(),   // [C10,~C02,~C03,~C01]
//@     // C10: empty lines, lines with NUL and lines that cannot fit are not recorded and drop nothing
//@     !recordable(text.spec_bytes(), old(self).cap()) ==>
//@         final(self).entries() == old(self).entries() && final(self).nav() == old(self).nav(),   // [C10]
//@     // C10: a recorded line becomes the newest, an older copy of it disappears, and only as many of the
//@     // oldest entries as necessary are dropped
//@     recordable(text.spec_bytes(), old(self).cap()) ==>
//@         final(self).nav() is None
//@         && final(self).entries() == hist_push(old(self).entries(), text.spec_bytes(), old(self).cap()),   // [C10]
//@ ---
//@ let ghost es0 = self.entries();
//@ let ghost t = text.spec_bytes();
//@ let ghost cap = self.cap();
//@ proof {   // [C10]
//@     broadcast use axiom_str_len_bound;
//@     broadcast use lemma_str_view_bytes;
//@     self.lemma_rep();
//@ }
        // extra byte is added to text len since we need to null terminate it
        if crate::verif_specs::contains_byte(text.as_bytes(), 0) || text.len() + 1 > self.buffer.len() || text.is_empty() {
            return;
        }

        self.cursor = None;
//@ proof {   // [C10]
//@     self.lemma_establish(es0, None);
//@     assert(recordable(t, cap));
//@     lemma_remove_eq_props(es0, t);
//@ }

        // check if duplicate is given, then we should remove it first
        // this is a bit slower than manually comparing all bytes, but easier to write
        match self.next_older() {
            Some(existing) if existing == text => {
//@ proof { self.lemma_rep(); }   // [C10]
//@ proof {   // [C10]
//@     // the newest entry is the submitted line: nothing to do, the formula of the statement gives es0 back
//@     let n = es0.len() as int;
//@     lemma_remove_eq_at(es0, t, n - 1);
//@     assert(es0.subrange(0, n - 1) + es0.subrange(n, n) =~= es0.drop_last());
//@     let kept = es0.drop_last();
//@     lemma_start_eq(kept, es0, n - 1);
//@     assert(hsize(kept) <= cap - t.len() - 1);
//@     reveal(evict_count);
//@     assert(evict_count(kept, cap - t.len() - 1) == 0);
//@     assert(kept.skip(0) =~= kept);
//@     assert(kept.push(t) =~= es0);
//@ }
                // element already is added and is newest among others
                // so we have nothing to do
                self.cursor = None;
//@ proof { self.lemma_establish(es0, None); }   // [C10]
                return;
            }
            _ => {}
        }

//@ let ghost mut j: int = if es0.len() > 0 { es0.len() - 1 } else { 0 };
//@ let ghost mut removed: bool = false;
//@ proof {   // [C10]
//@     if es0.len() > 0 { assert(es0[es0.len() - 1] != t); }
//@ }
        while let Some(existing) = self.next_older() {
//@ invariant_except_break
//@     !removed,
//@     self.wf(), self.entries() == es0, self.cap() == cap,
//@     es0.len() == 0 ==> self.nav() is None,
//@     es0.len() > 0 ==> self.nav() == Some(j),
//@     0 <= j, es0.len() > 0 ==> j < es0.len(),
//@     forall|i: int| j <= i < es0.len() ==> es0[i] != t,
//@ invariant
//@     entries_ok(es0), distinct(es0), recordable(t, cap), t == text.spec_bytes(), cap == self.buffer.bytes().len(),
//@ ensures
//@     cap == self.buffer.bytes().len(),
//@     removed ==> self.used <= cap && self.buffer.bytes().subrange(0, self.used as int) == flat(remove_eq(es0, t)),
//@     !removed ==> self.wf() && self.entries() == es0 && (forall|i: int| 0 <= i < es0.len() ==> es0[i] != t),
//@ decreases j,
//@ proof {   // [C10]
//@     j = j - 1;
//@ }
            if existing == text {
//@ proof { self.lemma_rep(); }   // [C10]
                // SAFETY: if next_older() returned Some, then
                // cursor is also Some and points to returned element
                let removing_start = unsafe { self.cursor.unwrap_unchecked() };
//@ proof {   // [C03]
//@     broadcast use lemma_str_view_bytes;
//@     assert(es0[j] == t);
//@     assert(removing_start == start(es0, j));
//@     lemma_start_mono(es0, j, j + 1);
//@     lemma_start_mono(es0, j + 1, es0.len() as int);
//@ }
                let removing_end = removing_start + text.len() + 1;
//@ proof {   // [C10]
//@     assert(removing_start == start(es0, j));
//@     lemma_flat_entry(es0, j);
//@     lemma_flat_remove(es0, j);
//@     lemma_flat_len(es0);
//@     lemma_remove_eq_at(es0, t, j);
//@     assert(removing_end == start(es0, j + 1));
//@ }
//@ let ghost b0 = self.buffer.bytes();

                self.buffer
                    .as_slice_mut()
                    .copy_within(removing_end..self.used, removing_start);
                self.used -= text.len() + 1;
//@ proof {   // [C10]
//@     removed = true;
//@     let fb = flat(es0);
//@     let nb = self.buffer.bytes();
//@     assert(b0.subrange(0, hsize(es0)) == fb);
//@     assert(nb.subrange(0, self.used as int) =~= fb.subrange(0, start(es0, j)) + fb.subrange(start(es0, j + 1), fb.len() as int)) by {
//@         assert forall|q: int| 0 <= q < self.used implies nb[q] == (fb.subrange(0, start(es0, j)) + fb.subrange(start(es0, j + 1), fb.len() as int))[q] by {
//@             if q < start(es0, j) { assert(nb[q] == b0[q]); assert(b0.subrange(0, hsize(es0))[q] == b0[q]); }
//@             else { assert(nb[q] == b0[q + t.len() + 1]); assert(b0.subrange(0, hsize(es0))[q + t.len() + 1] == b0[q + t.len() + 1]); }
//@         }
//@     }
//@ }
                break;
            }
//@ proof { broadcast use lemma_str_view_bytes; assert(self.entries() == es0); assert(es0[j] != t); }   // [C10]
        }
//@ proof {   // [C10]
//@     if !removed {
//@         // loop ran to the oldest entry without finding the line
//@         self.lemma_rep();
//@         lemma_remove_eq_absent(es0, t);
//@     }
//@ }
        self.cursor = None;
//@ let ghost es1 = remove_eq(es0, t);

//@ let ghost room: int = cap - t.len() - 1;
//@ let ghost mut es2 = es1;
//@ proof {   // [C10]
//@     lemma_flat_len(es1);
//@     assert(self.buffer.bytes().subrange(0, self.used as int).len() == self.used);
//@     assert(es1.skip(0) =~= es1);
//@     if hsize(es1) <= room { reveal(evict_count); assert(evict_count(es1, room) == 0); }
//@ }
        // remove old commands to free space if its not enough
        if self.buffer.len() < self.used + text.len() + 1 {
            // self.used is at least 2 bytes (1 for element and 1 for null terminator)
            // how many bytes we should free, this is at least 1 byte
            let required = self.used + text.len() + 1 - self.buffer.len();
//@ proof { assert(required == hsize(es1) - room); lemma_start_nonneg(es1, es1.len() as int); }   // [C10]
            if required >= self.used {
//@ proof {   // [C10]
//@     lemma_evict_all(es1, room);
//@     es2 = es1.skip(es1.len() as int);
//@ }
                self.used = 0;
            } else {
//@ let ghost win = self.buffer.bytes().subrange(required - 1, self.used as int);
//@ proof {   // [C03]
//@     // SAFETY argument of the source: the last used byte is the terminator of the newest entry
//@     assert(es1.len() > 0);
//@     lemma_flat_last(es1);
//@     assert(self.buffer.bytes().subrange(0, self.used as int).last() == self.buffer.bytes()[self.used - 1]);
//@     assert(win[win.len() - 1] == 0);
//@ }
                // how many bytes we are removing, so whole command is removed
                // SAFETY: Last used byte is always 0
                let removing = unsafe {
                    required
                        + crate::verif_specs::position_eq(&self.buffer.as_slice()[required - 1..self.used], 0)
                            .unwrap_unchecked()
                };
//@ proof {   // [C10]
//@     let pos = removing - required;
//@     lemma_evict_plan(es1, room, self.buffer.bytes(), win, self.used as int, required as int, pos);
//@     es2 = es1.skip(evict_count(es1, room));
//@ }
//@ let ghost b1 = self.buffer.bytes();

                if removing < self.used {
                    self.buffer
                        .as_slice_mut()
                        .copy_within(removing..self.used, 0);
                    self.used -= removing;
//@ proof {   // [C10]
//@     assert(self.buffer.bytes().subrange(0, self.used as int) =~= b1.subrange(removing as int, removing + self.used));
//@ }
                } else {
                    self.used = 0;
//@ proof {   // [C10]
//@     assert(es2 =~= Seq::<Seq<u8>>::empty());
//@ }
                }
            }
        }

//@ proof {   // [C10]
//@     assert(self.buffer.bytes().subrange(0, self.used as int) =~= flat(es2));
//@     assert(es2 == es1.skip(evict_count(es1, room)));
//@     assert(self.used == hsize(es2) && hsize(es2) <= room) by { lemma_flat_len(es2); }
//@     assert(entries_ok(es2) && distinct(es2) && (forall|i: int| 0 <= i < es2.len() ==> es2[i] != t)) by {
//@         lemma_flat_skip(es1, 0);
//@         if evict_count(es1, room) <= es1.len() { lemma_skip_props(es1, evict_count(es1, room), t); }
//@     }
//@     assert(entry_ok(t));
//@     lemma_push_props(es2, t);
//@ }
//@ let ghost b2 = self.buffer.bytes();
//@ let ghost used2 = self.used;
        // now we have enough space after self.used to insert element
        let null_pos = self.used + text.len();
        // SAFETY: we ensured that buffer contains len + 1 bytes after self.used position
        // and two buffers do not overlap since mutable reference to buffer is exclusive
        unsafe {
            utils::copy_nonoverlapping(
                text.as_bytes(),
                &mut self.buffer.as_slice_mut()[self.used..],
                text.len(),
            );
        }
        self.buffer.as_slice_mut()[null_pos] = 0;
        self.used += text.len() + 1;
//@ proof {   // [C10]
//@     let nb = self.buffer.bytes();
//@     let es3 = es2.push(t);
//@     assert(nb.subrange(0, used2 as int) =~= b2.subrange(0, used2 as int));
//@     assert(nb.subrange(used2 as int, used2 + t.len()) =~= t);
//@     lemma_append_entry(es2, t, b2, used2 as int, nb);
//@     self.lemma_establish(es3, None);
//@     assert(es3 == hist_push(es0, t, cap));
//@ }
    }
}

