use crate::{arguments::Arg, command::RawCommand};

#[derive(Clone, Debug, Eq, PartialEq)]
pub enum HelpRequest<'a> {
    /// Show list of all available commands
    All,

    /// Show help for specific command with arguments
    /// One of command arguments might be -h or --help
    Command(RawCommand<'a>),
}

impl<'a> HelpRequest<'a> {
    /// Tries to create new help request from raw command
    pub fn from_command(command: &RawCommand<'a>) -> Option<Self> {
//@ ensures
//@     // C12: exactly the help-shaped lines are turned into help requests (and therefore never reach the handler)
//@     (r is Some) == wants_help(command.name_bytes(), command.arg_tokens()),   // [C12,C01,~C17]
//@     // C12: which help is requested: the command list for `help` alone; for `help <command> ...` the command named
//@     // by the first argument with the remaining tokens; for `<command> ... -h|--help ...` that very command
//@     command.name_bytes() == help_word() && command.arg_tokens().len() == 0 ==> r == Some(HelpRequest::All),   // [C12]
//@     command.name_bytes() == help_word() && command.arg_tokens().len() > 0 && (r matches Some(HelpRequest::Command(c)))
//@         ==> (r matches Some(HelpRequest::Command(c)) && c.name_bytes() == command.arg_tokens()[0]
//@              && c.arg_tokens() == command.arg_tokens().drop_first()),   // [C12]
//@     command.name_bytes() != help_word() && r is Some
//@         ==> (r matches Some(HelpRequest::Command(c)) && c.name_bytes() == command.name_bytes()
//@              && c.arg_tokens() == command.arg_tokens()),   // [C12]
//@ ---
//@ let ghost items = classify(command.arg_tokens(), false);
//@ proof { broadcast use lemma_str_view_bytes; lemma_help_word(); }
        let mut args = command.args().args();
        if command.name() == "help" {
            match args.next() {
                Some(Arg::Value(name)) => {
//@ proof {   // [C12]
//@     let toks = command.arg_tokens();
//@     assert(name.spec_bytes() == toks[0]);
//@ }
                    let command = RawCommand::new(name, args.into_args());
                    Some(HelpRequest::Command(command))
                }
                None => Some(HelpRequest::All),
                _ => None,
            }
        }
        // check if any other option is -h or --help
        else if {
            let mut __it = args;
            let mut __found = false;
            loop {
//@ invariant_except_break
//@     !__found,
//@     forall|i: int| 0 <= i < items.len() - __it.view().len() ==> !(#[trigger] items[i] == ArgItem::Long(help_word()) || items[i] == ArgItem::Short('h')),
//@ invariant
//@     __it.view().len() <= items.len(),
//@     __it.view() == items.skip(items.len() - __it.view().len()),
//@     "help".spec_bytes() == help_word(),
//@ ensures
//@     __found == (exists|i: int| 0 <= i < items.len() && (#[trigger] items[i] == ArgItem::Long(help_word()) || items[i] == ArgItem::Short('h'))),
//@ decreases __it.view().len(),
//@ ---
//@ let ghost before = __it.view();
                match __it.next() {
                    Some(arg) => {
                        if arg == Arg::LongOption("help") || arg == Arg::ShortOption('h') {
                            __found = true;
//@ proof {
//@     broadcast use lemma_str_view_bytes;
//@     let k = items.len() - before.len();
//@     assert(before[0] == items[k]);
//@     assert(items[k] == ArgItem::Long(help_word()) || items[k] == ArgItem::Short('h'));
//@ }
                            break;
                        }
//@ proof {
//@     broadcast use lemma_str_view_bytes;
//@     let k = items.len() - before.len();
//@     assert(before[0] == items[k]);
//@     assert(!(items[k] == ArgItem::Long(help_word()) || items[k] == ArgItem::Short('h')));
//@     assert(__it.view() =~= items.skip(items.len() - __it.view().len())) by {
//@         assert(before.drop_first() =~= items.skip(k + 1));
//@     }
//@ }
                    }
                    None => {
                        break;
                    }
                }
            }
            __found
        } {
            Some(HelpRequest::Command(command.clone()))
        } else {
            None
        }
    }
}

