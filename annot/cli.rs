pub use crate::builder::CliBuilder;

use core::fmt::Debug;

#[cfg(not(feature = "history"))]
use core::marker::PhantomData;

use crate::{
    buffer::Buffer,
    builder::DEFAULT_PROMPT,
    codes,
    command::RawCommand,
    editor::Editor,
    input::{ControlInput, Input, InputGenerator},
    service::{Autocomplete, CommandProcessor, Help, ParseError, ProcessError},
    token::Tokens,
    utils,
    writer::{WriteExt, Writer},
};

#[cfg(feature = "autocomplete")]
use crate::autocomplete::{Autocompletion, Request};

#[cfg(feature = "help")]
use crate::{help::HelpRequest, service::HelpError};

#[cfg(feature = "history")]
use crate::history::History;

use crate::verif_specs::embedded_io::{Error, Write};

//@ use crate::verif_specs::embedded_io::Ev;
//@ #[verifier::reject_recursive_types(E)]
pub struct CliHandle<'a, W: Write<Error = E>, E: crate::verif_specs::embedded_io::Error> {
    pub new_prompt: Option<&'static str>,
    pub writer: Writer<'a, W, E>,
}

impl<'a, W, E> CliHandle<'a, W, E>
where
    W: Write<Error = E>,
    E: crate::verif_specs::embedded_io::Error,
{
//@ /// the handle's writer is well-formed (see Writer::wf)
//@ pub open spec fn wf(&self) -> bool { self.writer.wf() }
//@ /// failure count of the underlying sink
//@ pub open spec fn errs(&self) -> nat { self.writer.errs() }
    /// Set new prompt to use in CLI
    pub fn set_prompt(&mut self, prompt: &'static str) {
//@ ensures final(self).wf() == old(self).wf(), final(self).errs() == old(self).errs(), old(self).wf() ==> handle_api_only(self),
//@     final(self).writer == old(self).writer,
        self.new_prompt = Some(prompt)
    }

    pub fn writer(&mut self) -> &mut Writer<'a, W, E> {
//@ ensures *r == old(self).writer, final(self).writer == *final(r), final(self).new_prompt == old(self).new_prompt,
        &mut self.writer
    }

    fn new(writer: Writer<'a, W, E>) -> Self {
//@ ensures r.writer == writer, r.new_prompt is None,
        Self {
            new_prompt: None,
            writer,
        }
    }
}

//@ /// what any use of the handle through its API guarantees (ASSUMED of command handlers)
//@ #[verifier::prophetic]
//@ pub open spec fn handle_api_only<W: Write<Error = E>, E: crate::verif_specs::embedded_io::Error>(h: &mut CliHandle<'_, W, E>) -> bool {
//@     &&& final(h).writer.wf() && final(h).writer.base == h.writer.base
//@     &&& final(h).writer.fin_evs() == h.writer.fin_evs() && final(h).writer.fin_errs() == h.writer.fin_errs()
//@     &&& final(h).writer.errs() >= h.writer.errs()
//@ }
//@ #[verifier::external]   // NOT MIRRORED: Debug formatting glue
impl<W, E> Debug for CliHandle<'_, W, E>
where
    W: Write<Error = E>,
    E: crate::verif_specs::embedded_io::Error,
{
    fn fmt(&self, f: &mut core::fmt::Formatter<'_>) -> core::fmt::Result {
        f.debug_struct("CliHandle").finish()
    }
}

#[cfg(feature = "history")]
enum NavigateHistory {
    Older,
    Newer,
}

enum NavigateInput {
    Backward,
    Forward,
}

//@ #[verifier::reject_recursive_types(E)]
#[doc(hidden)]
pub struct Cli<W: Write<Error = E>, E: Error, CommandBuffer: Buffer, HistoryBuffer: Buffer> {
    editor: Option<Editor<CommandBuffer>>,
    #[cfg(feature = "history")]
    history: History<HistoryBuffer>,
    input_generator: Option<InputGenerator>,
    prompt: &'static str,
    writer: W,
    #[cfg(not(feature = "history"))]
    _ph: PhantomData<HistoryBuffer>,
}

//@ #[verifier::external]   // NOT MIRRORED: Debug formatting glue
impl<W, E, CommandBuffer, HistoryBuffer> Debug for Cli<W, E, CommandBuffer, HistoryBuffer>
where
    W: Write<Error = E>,
    E: crate::verif_specs::embedded_io::Error,
    CommandBuffer: Buffer,
    HistoryBuffer: Buffer,
{
    fn fmt(&self, f: &mut core::fmt::Formatter<'_>) -> core::fmt::Result {
        f.debug_struct("Cli")
            .field("editor", &self.editor)
            .field("input_generator", &self.input_generator)
            .field("prompt", &self.prompt)
            .finish()
    }
}

impl<W, E, CommandBuffer, HistoryBuffer> Cli<W, E, CommandBuffer, HistoryBuffer>
where
    W: Write<Error = E>,
    E: crate::verif_specs::embedded_io::Error,
    CommandBuffer: Buffer,
    HistoryBuffer: Buffer,
{
//@ #[cfg(feature = "history")]
//@ pub closed spec fn hist_wf(&self) -> bool { self.history.wf() }
//@ #[cfg(not(feature = "history"))]
//@ pub closed spec fn hist_wf(&self) -> bool { true }
//@ /// representation invariant: editor and decoder are in place (they are taken out only inside process_byte)
//@ pub closed spec fn wf(&self) -> bool {
//@     &&& self.editor is Some && self.editor.unwrap().wf()
//@     &&& self.input_generator is Some && self.input_generator.unwrap().wf()
//@     &&& self.hist_wf()
//@ }
//@ /// event log and failure count of the output sink
//@ pub closed spec fn evs(&self) -> Seq<Ev> { self.writer.evs() }
//@ pub closed spec fn errs(&self) -> nat { self.writer.errs() }
//@ /// the edited line (UTF-8 bytes) and the cursor (in characters)
//@ pub closed spec fn line_bytes(&self) -> Seq<u8> { self.editor.unwrap().line_bytes() }
//@ pub closed spec fn cur(&self) -> nat { self.editor.unwrap().cur() }
//@ pub closed spec fn prompt_bytes(&self) -> Seq<u8> { self.prompt.spec_bytes() }
//@ /// everything except editor and decoder is in place (state inside process_byte)
//@ pub closed spec fn wf_inner(&self) -> bool { self.hist_wf() }
//@ #[cfg(feature = "history")]
//@ pub closed spec fn same_hist(&self, o: &Self) -> bool { self.history == o.history }
//@ #[cfg(not(feature = "history"))]
//@ pub closed spec fn same_hist(&self, o: &Self) -> bool { true }
//@ /// frame: everything but the sink is unchanged
//@ pub closed spec fn rest_eq(&self, o: &Self) -> bool {
//@     self.editor == o.editor && self.input_generator == o.input_generator && self.prompt == o.prompt && self.same_hist(o)
//@ }
//@ /// C14 + C15 for one library operation that succeeded: no failed sink operation, and either nothing was written
//@ /// or the last sink operation is a flush
//@ pub closed spec fn sink_ok(&self, o: &Self) -> bool {
//@     self.writer.errs() == o.writer.errs() && (self.writer.evs() == o.writer.evs() || self.writer.evs().last() is F && self.writer.evs().len() > 0)
//@ }
    #[allow(unused_variables)]
    #[deprecated(since = "0.2.1", note = "please use `builder` instead")]
    pub fn new(
        writer: W,
        command_buffer: CommandBuffer,
        history_buffer: HistoryBuffer,
    ) -> Result<Self, E> {
//@ ensures
//@     r matches Ok(c) ==> c.wf() && c.line_bytes() == Seq::<u8>::empty() && c.cur() == 0
//@         && c.errs() == writer.errs()
//@         // C15: the prompt has been written and flushed
//@         && c.evs() == writer.evs().push(Ev::W(c.prompt_bytes())).push(Ev::F),   // [C15]
        let mut cli = Self {
            editor: Some(Editor::new(command_buffer)),
            #[cfg(feature = "history")]
            history: History::new(history_buffer),
            input_generator: Some(InputGenerator::new()),
            prompt: DEFAULT_PROMPT,
            writer,
            #[cfg(not(feature = "history"))]
            _ph: PhantomData,
        };

        cli.writer.flush_str(cli.prompt)?;

        Ok(cli)
    }

    pub(crate) fn from_builder(
        builder: CliBuilder<W, E, CommandBuffer, HistoryBuffer>,
    ) -> Result<Self, E> {
//@ ensures
//@     r matches Ok(c) ==> c.wf() && c.line_bytes() == Seq::<u8>::empty() && c.cur() == 0
//@         && c.errs() == builder.writer.errs() && c.prompt_bytes() == builder.prompt.spec_bytes()
//@         // C15: the prompt has been written and flushed
//@         && c.evs() == builder.writer.evs().push(Ev::W(c.prompt_bytes())).push(Ev::F),   // [C15]
        let mut cli = Self {
            editor: Some(Editor::new(builder.command_buffer)),
            #[cfg(feature = "history")]
            history: History::new(builder.history_buffer),
            input_generator: Some(InputGenerator::new()),
            prompt: builder.prompt,
            writer: builder.writer,
            #[cfg(not(feature = "history"))]
            _ph: PhantomData,
        };

        cli.writer.flush_str(cli.prompt)?;

        Ok(cli)
    }

    /// Each call to process byte can be done with different
    /// command set and/or command processor.
    /// In process callback you can change some outside state
    /// so next calls will use different processor
    pub fn process_byte<C: Autocomplete + Help, P: CommandProcessor<W, E>>(
        &mut self,
        b: u8,
        processor: &mut P,
    ) -> Result<(), E> {
//@ requires old(self).wf(),
//@ ensures
//@     // C14: the session stays usable whatever happens: editor and decoder are put back, the line is well-formed text
//@     final(self).wf(),   // [C14,C03]
//@     // C14: a failed sink operation is never swallowed.  C15: whatever was written has been flushed
//@     r is Ok ==> final(self).errs() == old(self).errs(),   // [C14]
//@     r is Ok ==> (final(self).evs() == old(self).evs() || final(self).evs().len() > 0 && final(self).evs().last() is F),   // [C15]
//@     // C01: only a line terminator can invoke the handler, at most once, and only with the tokens of the line
//@     (b != 0x0D && b != 0x0A) ==> final(processor).calls() == old(processor).calls(),   // [C01]
//@     final(processor).calls() == old(processor).calls()
//@         || (nul_free(old(self).line_bytes()) ==> (dispatch_of(old(self).line_bytes(), feat_help()) matches Some(x)
//@             && final(processor).calls() == old(processor).calls().push(x))),   // [C01,C12]
        if let (Some(mut editor), Some(mut input_generator)) =
            (self.editor.take(), self.input_generator.take())
        {
//@ proof { assert(editor.wf()); assert(input_generator.wf()); }
            let result = match input_generator.accept(b) {
                Some(input) => match input {
                    Input::Control(control) => {
                        self.on_control_input::<C, _>(&mut editor, control, processor)
                    }
                    Input::Char(text) => self.on_text_input(&mut editor, text),
                },
                None => Ok(()),
            };

            self.editor = Some(editor);
            self.input_generator = Some(input_generator);
            result
        } else {
            Ok(())
        }
    }

    /// Set new prompt to use in CLI
    ///
    /// Changes will apply immediately and current line
    /// will be replaced by new prompt and input
    pub fn set_prompt(&mut self, prompt: &'static str) -> Result<(), E> {
//@ requires old(self).wf(),
//@ ensures final(self).wf(), final(self).line_bytes() == old(self).line_bytes(), final(self).cur() == old(self).cur(),
//@     final(self).prompt_bytes() == prompt.spec_bytes(),
//@     r is Ok ==> final(self).errs() == old(self).errs(),   // [C14]
//@     r is Ok ==> final(self).evs().len() > 0 && final(self).evs().last() is F,   // [C15]
        self.prompt = prompt;
        self.clear_line(false)?;

        if let Some(editor) = self.editor.as_mut() {
            self.writer.flush_str(editor.text())?;
        }

        Ok(())
    }

    pub fn write(
        &mut self,
        f: impl FnOnce(&mut Writer<'_, W, E>) -> Result<(), E>,
    ) -> Result<(), E> {
//@ requires old(self).wf(),
//@     // the closure may be called with any well-formed Writer and uses it through its API only (ASSUMED of callers)
//@     forall|w: &mut Writer<'_, W, E>| w.wf() ==> #[trigger] f.requires((w,)),
//@     forall|w: &mut Writer<'_, W, E>, res: Result<(), E>| #[trigger] f.ensures((w,), res) ==>
//@         crate::writer::writer_api_only(w) && (res is Ok ==> final(w).errs() == w.errs()),
//@ ensures final(self).wf(), final(self).line_bytes() == old(self).line_bytes(), final(self).cur() == old(self).cur(),   // [C13]
//@     final(self).prompt_bytes() == old(self).prompt_bytes(),
//@     r is Ok ==> final(self).errs() == old(self).errs(),   // [C14]
//@     r is Ok ==> final(self).evs().len() > 0 && final(self).evs().last() is F,   // [C15]
        self.clear_line(true)?;

        let mut cli_writer = Writer::new(&mut self.writer);

        f(&mut cli_writer)?;

        // we should write back input that was there before writing
        if cli_writer.is_dirty() {
            self.writer.write_str(codes::CRLF)?;
        }
        self.writer.write_str(self.prompt)?;
        if let Some(editor) = self.editor.as_mut() {
            self.writer.flush_str(editor.text())?;
        }

        Ok(())
    }

    fn clear_line(&mut self, clear_prompt: bool) -> Result<(), E> {
//@ ensures final(self).rest_eq(old(self)),
//@     r is Ok ==> final(self).writer.errs() == old(self).writer.errs(),   // [C14]
//@     r is Ok ==> final(self).writer.evs().len() > 0 && final(self).writer.evs().last() is F,   // [C15]
        self.writer.write_str("\r")?;
        self.writer.write_bytes(codes::CLEAR_LINE)?;

        if !clear_prompt {
            self.writer.write_str(self.prompt)?;
        }

        self.writer.flush()
    }

    fn on_text_input(&mut self, editor: &mut Editor<CommandBuffer>, text: &str) -> Result<(), E> {
//@ requires old(editor).wf(), text@.len() == 1,
//@ ensures final(editor).wf(), final(editor).cap() == old(editor).cap(), final(self).rest_eq(old(self)),
//@     // C05/C14: the edit does not depend on the sink: the character goes in at the cursor iff it fits
//@     ({ let fits = old(editor).line_bytes().len() + text.spec_bytes().len() <= old(editor).cap();
//@        let c = old(editor).cur() as int; let l = old(editor).line();
//@        &&& fits ==> final(editor).line() == l.subrange(0, c) + text@ + l.subrange(c, l.len() as int) && final(editor).cur() == c + 1
//@        &&& !fits ==> final(editor).line_bytes() == old(editor).line_bytes() && final(editor).cur() == old(editor).cur() }),   // [C05,C14]
//@     r is Ok ==> final(self).sink_ok(old(self)),   // [C14,C15]
        let is_inside = editor.cursor() < editor.len();
        if let Some(c) = editor.insert(text) {
            if is_inside {
                // text is always one char
                proof { assert(c@.len() == 1); }
                self.writer.write_bytes(codes::INSERT_CHAR)?;
            }
            self.writer.flush_str(c)?;
        }
        Ok(())
    }

    fn on_control_input<C: Autocomplete + Help, P: CommandProcessor<W, E>>(
        &mut self,
        editor: &mut Editor<CommandBuffer>,
        control: ControlInput,
        processor: &mut P,
    ) -> Result<(), E> {
//@ requires old(editor).wf(), old(self).wf_inner(),
//@ ensures final(editor).wf(), final(self).wf_inner(), final(editor).cap() == old(editor).cap(),   // [C14,C03]
//@     final(self).editor == old(self).editor, final(self).input_generator == old(self).input_generator,
//@     r is Ok ==> final(self).sink_ok(old(self)),   // [C14,C15]
//@     // C01: no key but Enter invokes the handler
//@     !(control is Enter) ==> final(processor).calls() == old(processor).calls(),   // [C01]
//@     // C16: with history disabled Up and Down do nothing; with autocomplete disabled Tab does nothing
//@     !feat_history() && (control is Up || control is Down) ==>
//@         final(editor).line_bytes() == old(editor).line_bytes() && final(editor).cur() == old(editor).cur()
//@         && final(self).writer.evs() == old(self).writer.evs() && final(self).prompt == old(self).prompt && r is Ok,   // [C16]
//@     !feat_autocomplete() && control is Tab ==>
//@         final(editor).line_bytes() == old(editor).line_bytes() && final(editor).cur() == old(editor).cur()
//@         && final(self).writer.evs() == old(self).writer.evs() && final(self).prompt == old(self).prompt && r is Ok,   // [C16]
//@     // C01: Enter invokes it at most once and only with the tokens of the line as it stood
//@     control is Enter ==> (final(processor).calls() == old(processor).calls()
//@         || (nul_free(old(editor).line_bytes()) ==> (dispatch_of(old(editor).line_bytes(), feat_help()) matches Some(x)
//@             && final(processor).calls() == old(processor).calls().push(x)))),   // [C01,C12]
//@     // C01: when nothing failed, it is invoked exactly when the line has a token and is not a help request;
//@     // afterwards the line is empty and a fresh prompt has been printed
//@     control is Enter && r is Ok && nul_free(old(editor).line_bytes()) ==>
//@         final(processor).calls() == (match dispatch_of(old(editor).line_bytes(), feat_help()) {
//@             Some(x) => old(processor).calls().push(x), None => old(processor).calls() }),   // [C01,C12]
//@     control is Enter && r is Ok ==> final(editor).line_bytes() == Seq::<u8>::empty() && final(editor).cur() == 0
//@         && final(self).writer.evs().len() >= 2
//@         && final(self).writer.evs()[final(self).writer.evs().len() - 2] == Ev::W(final(self).prompt.spec_bytes()),   // [C01]
//@     // C14: after a failed Enter the line is as it was or cleared, never a tokenised mixture
//@     control is Enter && r is Err ==> (final(editor).line_bytes() == old(editor).line_bytes() && final(editor).cur() == old(editor).cur())
//@         || (final(editor).line_bytes() == Seq::<u8>::empty() && final(editor).cur() == 0),   // [C14]
        match control {
            ControlInput::Enter => {
                self.writer.write_str(codes::CRLF)?;

                #[cfg(feature = "history")]
                self.history.push(editor.text());
                let text = editor.text_mut();

                let tokens = Tokens::new(text);
                let result = self.process_input::<C, _>(tokens, processor);

                // line was tokenized in place, so it is cleared even if processing failed
                editor.clear();
                result?;

                self.writer.flush_str(self.prompt)?;
            }
            ControlInput::Tab => {
                #[cfg(feature = "autocomplete")]
                self.process_autocomplete::<C>(editor)?;
            }
            ControlInput::Backspace => {
                if editor.move_left() {
                    editor.remove();
                    self.writer.flush_bytes(codes::CURSOR_BACKWARD)?;
                    self.writer.flush_bytes(codes::DELETE_CHAR)?;
                }
            }
            ControlInput::Down =>
            {
                #[cfg(feature = "history")]
                self.navigate_history(editor, NavigateHistory::Newer)?
            }
            ControlInput::Up =>
            {
                #[cfg(feature = "history")]
                self.navigate_history(editor, NavigateHistory::Older)?
            }
            ControlInput::Forward => self.navigate_input(editor, NavigateInput::Forward)?,
            ControlInput::Back => self.navigate_input(editor, NavigateInput::Backward)?,
        }

        Ok(())
    }

    fn navigate_input(
        &mut self,
        editor: &mut Editor<CommandBuffer>,
        dir: NavigateInput,
    ) -> Result<(), E> {
//@ requires old(editor).wf(),
//@ ensures final(editor).wf(), final(editor).cap() == old(editor).cap(), final(self).rest_eq(old(self)),
//@     final(editor).line_bytes() == old(editor).line_bytes(),   // [C05]
//@     r is Ok ==> final(self).sink_ok(old(self)),   // [C14,C15]
        match dir {
            NavigateInput::Backward => if editor.move_left() {
                self.writer.flush_bytes(codes::CURSOR_BACKWARD)?;
            } else { return Ok(()) },
            NavigateInput::Forward => if editor.move_right() {
                self.writer.flush_bytes(codes::CURSOR_FORWARD)?;
            } else { return Ok(()) },
        }
        Ok(())
    }

    #[cfg(feature = "history")]
    fn navigate_history(
        &mut self,
        editor: &mut Editor<CommandBuffer>,
        dir: NavigateHistory,
    ) -> Result<(), E> {
//@ requires old(editor).wf(), old(self).wf_inner(),
//@ ensures final(editor).wf(), final(self).wf_inner(), final(editor).cap() == old(editor).cap(),
//@     final(self).editor == old(self).editor, final(self).input_generator == old(self).input_generator, final(self).prompt == old(self).prompt,
//@     r is Ok ==> final(self).sink_ok(old(self)),   // [C14,C15]
        let history_elem = match dir {
            NavigateHistory::Older => self.history.next_older(),
            NavigateHistory::Newer => self.history.next_newer().or(Some("")),
        };
        if let Some(element) = history_elem {
            editor.clear();
            editor.insert(element);
            self.clear_line(false)?;

            self.writer.flush_str(editor.text())?;
        }
        Ok(())
    }

    #[cfg(feature = "autocomplete")]
    fn process_autocomplete<C: Autocomplete>(
        &mut self,
        editor: &mut Editor<CommandBuffer>,
    ) -> Result<(), E> {
//@ requires old(editor).wf(),
//@ ensures final(editor).wf(), final(editor).cap() == old(editor).cap(), final(self).rest_eq(old(self)),
//@     r is Ok ==> final(self).sink_ok(old(self)),   // [C14,C15]
//@     // C11 (top level): Tab on a line that is a single partially typed word (up to the blanks right of the cursor)
//@     // extends it by what the names of C plus the built-in `help` that start with the word have in common --
//@     // their longest common continuation whenever every one of them fits -- and appends a space exactly when one
//@     // name matched, is there in full and there is room; when nothing matches or an argument has been started the
//@     // line is unchanged; the typed word is never altered and the command buffer never exceeded (wf)
//@     ({ let line = old(editor).line_bytes(); let rl = old(editor).ac_req_len(); let cap = old(editor).cap() as int;
//@        match ac_word(line.subrange(0, rl)) {
//@            None => final(editor).line_bytes() == line && final(editor).cur() == old(editor).cur(),
//@            Some(w) => exists|st: AcState| ac_inv(st, conts(C::names().push(help_word()), w), cap - rl)
//@                && final(editor).line_bytes() == #[trigger] ac_apply(line, rl, st, cap)
//@                && (st.auto is None ==> final(editor).cur() == old(editor).cur())
//@                && (st.auto is Some ==> final(editor).cur() == final(editor).line().len()),
//@        } }),   // [C11]
        let initial_cursor = editor.cursor();
//@ let ghost line0 = editor.line_bytes();
//@ let ghost rl0 = editor.ac_req_len();
        editor.autocompletion(|request: Request<'_>, autocompletion: &mut Autocompletion<'_>| {
//@ requires autocompletion.wf(),
//@ ensures crate::autocomplete::ac_api_only(autocompletion),
//@     final(autocompletion).cands@ == old(autocompletion).cands@ + conts(C::names().push(help_word()), request.name()),   // [C11]
//@     ac_inv(old(autocompletion).state(), old(autocompletion).cands@, old(autocompletion).room())
//@         ==> ac_inv(final(autocompletion).state(), final(autocompletion).cands@, old(autocompletion).room()),   // [C11]
//@ ---
//@ let ghost cands0 = autocompletion.cands@;
//@ let ghost w = request.name();
//@ proof {
//@     lemma_conts_concat(C::names(), seq![help_word()], w);
//@     lemma_conts_one(help_word(), w);
//@     assert(C::names().push(help_word()) =~= C::names() + seq![help_word()]);
//@ }
//@ proof { broadcast use axiom_str_len_bound; broadcast use lemma_str_view_bytes; lemma_help_word(); }
            C::autocomplete(request.clone(), autocompletion);
            match request {
                Request::CommandName(name) if crate::verif_specs::str_starts_with("help", name) => {
                    // SAFETY: "help" starts with name, so name cannot be longer
//@ proof {   // [C02]
//@     // "help" is ASCII: every index is a character boundary
//@     lemma_help_word();
//@     let h = "help".spec_bytes();
//@     assert(valid_utf8(h));
//@     if name.spec_bytes().len() < 4 { lemma_ascii_boundaries(h, name.spec_bytes().len() as int); }
//@     is_char_boundary_start_end_of_seq(h);
//@ }
                    let autocompleted = unsafe { "help".get_unchecked(name.len()..) };
//@ let ghost mid = autocompletion.cands@;
                    autocompletion.merge_autocompletion(autocompleted)
//@ ;
//@ proof {   // [C11]
//@     assert(name.spec_bytes() == w);
//@     assert(is_prefix_of(w, help_word()));
//@     let c = help_word().subrange(w.len() as int, 4);
//@     assert(autocompleted.spec_bytes() == c);
//@     assert(mid == cands0 + conts(C::names(), w));
//@     assert(mid.push(c) =~= cands0 + (conts(C::names(), w) + seq![c]));
//@ }
                }
                _ => {
//@ proof {   // [C11]
//@     assert(!is_prefix_of(w, help_word()));
//@     assert(cands0 + conts(C::names(), w) =~= cands0 + (conts(C::names(), w) + Seq::<Seq<u8>>::empty()));
//@ }
                }
            }
        });
        if editor.cursor() > initial_cursor {
            let autocompleted = editor.text_range(initial_cursor..);
            self.writer.flush_str(autocompleted)?;
        }
        Ok(())
    }

    fn process_command<P: CommandProcessor<W, E>>(
        &mut self,
        command: RawCommand<'_>,
        handler: &mut P,
    ) -> Result<(), E> {
//@ ensures final(self).editor == old(self).editor, final(self).input_generator == old(self).input_generator, final(self).same_hist(old(self)),
//@     // C01: the handler is called exactly once with this command
//@     final(handler).calls() == old(handler).calls().push((command.name_bytes(), command.arg_tokens())),   // [C01]
//@     r is Ok ==> final(self).writer.errs() == old(self).writer.errs(),   // [C14]
//@     r is Ok ==> final(self).writer.evs().len() > 0 && final(self).writer.evs().last() is F,   // [C15]
        let cli_writer = Writer::new(&mut self.writer);
        let mut handle = CliHandle::new(cli_writer);

        let res = handler.process(&mut handle, command);

        if let Some(prompt) = handle.new_prompt {
            self.prompt = prompt;
        }
        if handle.writer.is_dirty() {
            self.writer.write_str(codes::CRLF)?;
        }
        self.writer.flush()?;

        match res {
            Err(ProcessError::ParseError(err)) => self.process_error(err),
            Err(ProcessError::WriteError(err)) => Err(err),
            Ok(()) => Ok(()),
        }
    }

    #[allow(clippy::extra_unused_type_parameters)]
    fn process_input<C: Help, P: CommandProcessor<W, E>>(
        &mut self,
        tokens: Tokens<'_>,
        handler: &mut P,
    ) -> Result<(), E> {
//@ ensures final(self).editor == old(self).editor, final(self).input_generator == old(self).input_generator, final(self).same_hist(old(self)),
//@     // C01 / C12: the handler is called iff there is a command and it is not a help request, with exactly the tokens
//@     final(handler).calls() == (
//@         if tokens.view().len() == 0 { old(handler).calls() }
//@         else if feat_help() && wants_help(tokens.view()[0], tokens.view().drop_first()) { old(handler).calls() }
//@         else { old(handler).calls().push((tokens.view()[0], tokens.view().drop_first())) }),   // [C01,C12]
//@     r is Ok ==> final(self).sink_ok(old(self)),   // [C14,C15]
        if let Some(command) = RawCommand::from_tokens(&tokens) {
            #[cfg(feature = "help")]
            if let Some(request) = HelpRequest::from_command(&command) {
                return self.process_help::<C>(request);
            }

            self.process_command(command, handler)?;
        };

        Ok(())
    }

    fn process_error(&mut self, error: ParseError<'_>) -> Result<(), E> {
//@ ensures final(self).rest_eq(old(self)),
//@     r is Ok ==> final(self).writer.errs() == old(self).writer.errs(),   // [C14]
//@     r is Ok ==> final(self).writer.evs().len() > 0 && final(self).writer.evs().last() is F,   // [C15]
        self.writer.write_str("error: ")?;
        match error {
            ParseError::MissingRequiredArgument { name } => {
                self.writer.write_str("missing required argument: ")?;
                self.writer.write_str(name)?;
            }
            ParseError::ParseValueError { value, expected } => {
                self.writer.write_str("failed to parse '")?;
                self.writer.write_str(value)?;
                self.writer.write_str("', expected ")?;
                self.writer.write_str(expected)?;
            }
            ParseError::UnexpectedArgument { value } => {
                self.writer.write_str("unexpected argument: ")?;
                self.writer.write_str(value)?;
            }
            ParseError::UnexpectedLongOption { name } => {
                self.writer.write_str("unexpected option: -")?;
                self.writer.write_str("-")?;
                self.writer.write_str(name)?;
            }
            ParseError::UnexpectedShortOption { name } => {
                let mut buf = [0; 4];
                let buf = utils::encode_utf8(name, &mut buf);
                self.writer.write_str("unexpected option: -")?;
                self.writer.write_str(buf)?;
            }
            ParseError::UnknownCommand => {
                self.writer.write_str("unknown command")?;
            }
        }
        self.writer.flush_str(codes::CRLF)
    }

    #[cfg(feature = "help")]
    fn process_help<C: Help>(&mut self, request: HelpRequest<'_>) -> Result<(), E> {
//@ ensures final(self).rest_eq(old(self)),
//@     r is Ok ==> final(self).writer.errs() == old(self).writer.errs(),   // [C14]
//@     r is Ok ==> final(self).writer.evs().len() > 0 && final(self).writer.evs().last() is F,   // [C15]
        let mut writer = Writer::new(&mut self.writer);

        match request {
            HelpRequest::All => C::list_commands(&mut writer)?,
            HelpRequest::Command(command) => {
                match C::command_help(&mut |_p: &mut Writer<'_, W, E>| -> (r: Result<(), E>) ensures r is Ok { Ok(()) }, command.clone(), &mut writer) {
                    Err(HelpError::UnknownCommand) => {
                        writer.write_str("error: ")?;
                        writer.write_str("unknown command")?;
                    }
                    Err(HelpError::WriteError(err)) => return Err(err),
                    Ok(()) => {}
                }
            }
        };

        if writer.is_dirty() {
            self.writer.write_str(codes::CRLF)?;
        }
        self.writer.flush()?;

        Ok(())
    }
}
