pub use crate::builder::CliBuilder;

use core::fmt::Debug;

#[cfg(not(feature = "history"))]
use core::marker::PhantomData;

use crate::{
    buffer::Buffer,
    builder::DEFAULT_PROMPT,
    codes,
    command::RawCommand,
    editor::Editor,
    input::{ControlInput, Input, InputGenerator},
    service::{Autocomplete, CommandProcessor, Help, ParseError, ProcessError},
    token::Tokens,
    utils,
    writer::{WriteExt, Writer},
};

#[cfg(feature = "autocomplete")]
use crate::autocomplete::{Autocompletion, Request};

#[cfg(feature = "help")]
use crate::{help::HelpRequest, service::HelpError};

#[cfg(feature = "history")]
use crate::history::History;

use crate::verif_specs::embedded_io::{Error, Write};

//@ use crate::verif_specs::embedded_io::Ev;
//@ #[verifier::reject_recursive_types(E)]
pub struct CliHandle<'a, W: Write<Error = E>, E: crate::verif_specs::embedded_io::Error> {
    pub new_prompt: Option<&'static str>,
    pub writer: Writer<'a, W, E>,
}

impl<'a, W, E> CliHandle<'a, W, E>
where
    W: Write<Error = E>,
    E: crate::verif_specs::embedded_io::Error,
{
//@ /// the handle's writer is well-formed (see Writer::wf)
//@ pub open spec fn wf(&self) -> bool { self.writer.wf() }
//@ /// failure count of the underlying sink
//@ pub open spec fn errs(&self) -> nat { self.writer.errs() }
    /// Set new prompt to use in CLI
    pub fn set_prompt(&mut self, prompt: &'static str) {
//@ ensures final(self).wf() == old(self).wf(), final(self).errs() == old(self).errs(), old(self).wf() ==> handle_api_only(self),
//@     final(self).writer == old(self).writer,
//@ ---
        self.new_prompt = Some(prompt)
    }

    pub fn writer(&mut self) -> &mut Writer<'a, W, E> {
//@ ensures *r == old(self).writer, final(self).writer == *final(r), final(self).new_prompt == old(self).new_prompt,
        &mut self.writer
    }

    fn new(writer: Writer<'a, W, E>) -> Self {
//@ ensures r.writer == writer, r.new_prompt is None,
        Self {
            new_prompt: None,
            writer,
        }
    }
}

//@ /// what any use of the handle through its API guarantees (ASSUMED of command handlers)
//@ #[verifier::prophetic]
//@ pub open spec fn handle_api_only<W: Write<Error = E>, E: crate::verif_specs::embedded_io::Error>(h: &mut CliHandle<'_, W, E>) -> bool {
//@     &&& final(h).writer.base == h.writer.base
//@     &&& final(h).writer.fin_evs() == h.writer.fin_evs() && final(h).writer.fin_errs() == h.writer.fin_errs()
//@     &&& final(h).writer.errs() >= h.writer.errs()
//@     // as long as no sink operation failed the Writer stays well-formed and the sink log only grows
//@     &&& final(h).writer.errs() == h.writer.errs() ==> final(h).writer.wf() && final(h).writer.evs().len() >= h.writer.evs().len()
//@         && (forall|i: int| 0 <= i < h.writer.evs().len() ==> #[trigger] final(h).writer.evs()[i] == h.writer.evs()[i])
//@ }
//@ #[verifier::external]   // NOT MIRRORED: Debug formatting glue
impl<W, E> Debug for CliHandle<'_, W, E>
where
    W: Write<Error = E>,
    E: crate::verif_specs::embedded_io::Error,
{
    fn fmt(&self, f: &mut core::fmt::Formatter<'_>) -> core::fmt::Result {
        f.debug_struct("CliHandle").finish()
    }
}

#[cfg(feature = "history")]
enum NavigateHistory {
    Older,
    Newer,
}

enum NavigateInput {
    Backward,
    Forward,
}

//@ #[verifier::reject_recursive_types(E)]
#[doc(hidden)]
pub struct Cli<W: Write<Error = E>, E: Error, CommandBuffer: Buffer, HistoryBuffer: Buffer> {
    editor: Option<Editor<CommandBuffer>>,
    #[cfg(feature = "history")]
    history: History<HistoryBuffer>,
    input_generator: Option<InputGenerator>,
    prompt: &'static str,
    writer: W,
    #[cfg(not(feature = "history"))]
    _ph: PhantomData<HistoryBuffer>,
}

//@ #[verifier::external]   // NOT MIRRORED: Debug formatting glue
impl<W, E, CommandBuffer, HistoryBuffer> Debug for Cli<W, E, CommandBuffer, HistoryBuffer>
where
    W: Write<Error = E>,
    E: crate::verif_specs::embedded_io::Error,
    CommandBuffer: Buffer,
    HistoryBuffer: Buffer,
{
    fn fmt(&self, f: &mut core::fmt::Formatter<'_>) -> core::fmt::Result {
        f.debug_struct("Cli")
            .field("editor", &self.editor)
            .field("input_generator", &self.input_generator)
            .field("prompt", &self.prompt)
            .finish()
    }
}

impl<W, E, CommandBuffer, HistoryBuffer> Cli<W, E, CommandBuffer, HistoryBuffer>
where
    W: Write<Error = E>,
    E: crate::verif_specs::embedded_io::Error,
    CommandBuffer: Buffer,
    HistoryBuffer: Buffer,
{
//@ #[cfg(feature = "history")]
//@ pub closed spec fn hist_wf(&self) -> bool { self.history.wf() }
//@ #[cfg(not(feature = "history"))]
//@ pub closed spec fn hist_wf(&self) -> bool { true }
//@ /// representation invariant: editor and decoder are in place (they are taken out only inside process_byte)
//@ pub closed spec fn wf(&self) -> bool {
//@     &&& self.editor is Some && self.editor.unwrap().wf()
//@     &&& self.input_generator is Some && self.input_generator.unwrap().wf()
//@     &&& self.hist_wf()
//@ }
//@ /// event log and failure count of the output sink
//@ pub closed spec fn evs(&self) -> Seq<Ev> { self.writer.evs() }
//@ pub closed spec fn errs(&self) -> nat { self.writer.errs() }
//@ /// the edited line (UTF-8 bytes) and the cursor (in characters)
//@ pub closed spec fn line_bytes(&self) -> Seq<u8> { self.editor.unwrap().line_bytes() }
//@ pub closed spec fn cur(&self) -> nat { self.editor.unwrap().cur() }
//@ pub closed spec fn prompt_bytes(&self) -> Seq<u8> { self.prompt.spec_bytes() }
//@ /// C06: the terminal (as driven by the sink events so far) shows prompt + the given editor's line, cursor at its cursor
//@ pub closed spec fn disp(&self, ed: &Editor<CommandBuffer>) -> bool {
//@     shows(term_run(self.writer.evs()), self.prompt@, ed.line(), ed.cur() as int)
//@ }
//@ pub closed spec fn displayed(&self) -> bool { self.disp(&self.editor.unwrap()) }
//@ /// prompt and edited line are printable text (no C0 controls, no DEL)
//@ pub closed spec fn printable_with(&self, ed: &Editor<CommandBuffer>) -> bool {
//@     printable_bytes(self.prompt.spec_bytes()) && printable_bytes(ed.line_bytes())
//@ }
//@ pub closed spec fn printable_state(&self) -> bool { self.printable_with(&self.editor.unwrap()) }
//@ /// the terminal is at the start of an empty line
//@ pub closed spec fn at_fresh_line(&self) -> bool { is_fresh(term_run(self.writer.evs())) }
//@ /// everything except editor and decoder is in place (state inside process_byte)
//@ pub closed spec fn wf_inner(&self) -> bool { self.hist_wf() }
//@ /// abstract state of the input decoder (C04)
//@ pub closed spec fn dec_view(&self) -> DecState { self.input_generator.unwrap().view() }
//@ /// the recorded lines (oldest first), the navigation position and the size of the history buffer
//@ #[cfg(feature = "history")]
//@ pub closed spec fn hist_entries(&self) -> Seq<Seq<u8>> { self.history.entries() }
//@ #[cfg(not(feature = "history"))]
//@ pub closed spec fn hist_entries(&self) -> Seq<Seq<u8>> { Seq::empty() }
//@ #[cfg(feature = "history")]
//@ pub closed spec fn hist_nav(&self) -> Option<int> { self.history.nav() }
//@ #[cfg(not(feature = "history"))]
//@ pub closed spec fn hist_nav(&self) -> Option<int> { None }
//@ #[cfg(feature = "history")]
//@ pub closed spec fn hist_cap(&self) -> int { self.history.cap() }
//@ #[cfg(not(feature = "history"))]
//@ pub closed spec fn hist_cap(&self) -> int { 0 }
//@ #[cfg(feature = "history")]
//@ pub closed spec fn same_hist(&self, o: &Self) -> bool { self.history == o.history }
//@ #[cfg(not(feature = "history"))]
//@ pub closed spec fn same_hist(&self, o: &Self) -> bool { true }
//@ /// frame: everything but the sink is unchanged
//@ pub closed spec fn rest_eq(&self, o: &Self) -> bool {
//@     self.editor == o.editor && self.input_generator == o.input_generator && self.prompt == o.prompt && self.same_hist(o)
//@ }
//@ /// C14 + C15 for one library operation that succeeded: no failed sink operation, and either nothing was written
//@ /// or the last sink operation is a flush
//@ pub closed spec fn sink_ok(&self, o: &Self) -> bool {
//@     self.writer.errs() == o.writer.errs() && (self.writer.evs() == o.writer.evs() || self.writer.evs().last() is F && self.writer.evs().len() > 0)
//@ }
    #[allow(unused_variables)]
    #[deprecated(since = "0.2.1", note = "please use `builder` instead")]
    pub fn new(
        writer: W,
        command_buffer: CommandBuffer,
        history_buffer: HistoryBuffer,
    ) -> Result<Self, E> {
//@ ensures
//@     r matches Ok(c) ==> c.wf() && c.line_bytes() == Seq::<u8>::empty() && c.cur() == 0
//@         && c.errs() == writer.errs()
//@         // C15: the prompt has been written and flushed
//@         && c.evs() == writer.evs().push(Ev::W(c.prompt_bytes())).push(Ev::F)   // [C15]
//@         // C06: started on an empty terminal line, the prompt is shown with the cursor behind it
//@         && (is_fresh(term_run(writer.evs())) && printable_bytes(c.prompt_bytes()) ==> c.displayed()),   // [C06]
//@ ---
//@ let ghost evs0 = writer.evs();
        let mut cli = Self {
            editor: Some(Editor::new(command_buffer)),
            #[cfg(feature = "history")]
            history: History::new(history_buffer),
            input_generator: Some(InputGenerator::new()),
            prompt: DEFAULT_PROMPT,
            writer,
            #[cfg(not(feature = "history"))]
            _ph: PhantomData,
        };

        cli.writer.flush_str(cli.prompt)?;
//@ proof {   // [C06]
//@     broadcast use lemma_str_view_bytes;
//@     let pb = cli.prompt.spec_bytes();
//@     lemma_term_push(evs0.push(Ev::W(pb)), Ev::F);
//@     lemma_term_push(evs0, Ev::W(pb));
//@     if is_fresh(term_run(evs0)) && printable_bytes(pb) {
//@         lemma_show_fresh(term_run(evs0), cli.prompt@, Seq::<char>::empty());
//@         assert(cli.editor.unwrap().line() =~= Seq::<char>::empty());
//@         assert(term_put(term_put(term_run(evs0), cli.prompt@), Seq::<char>::empty()).cells =~= term_put(term_run(evs0), cli.prompt@).cells);
//@     }
//@ }

        Ok(cli)
    }

    pub(crate) fn from_builder(
        builder: CliBuilder<W, E, CommandBuffer, HistoryBuffer>,
    ) -> Result<Self, E> {
//@ ensures
//@     r matches Ok(c) ==> c.wf() && c.line_bytes() == Seq::<u8>::empty() && c.cur() == 0
//@         && c.errs() == builder.writer.errs() && c.prompt_bytes() == builder.prompt.spec_bytes()
//@         // C15: the prompt has been written and flushed
//@         && c.evs() == builder.writer.evs().push(Ev::W(c.prompt_bytes())).push(Ev::F)   // [C15]
//@         // C06: started on an empty terminal line, the prompt is shown with the cursor behind it
//@         && (is_fresh(term_run(builder.writer.evs())) && printable_bytes(c.prompt_bytes()) ==> c.displayed()),   // [C06]
//@ ---
//@ let ghost evs0 = builder.writer.evs();
        let mut cli = Self {
            editor: Some(Editor::new(builder.command_buffer)),
            #[cfg(feature = "history")]
            history: History::new(builder.history_buffer),
            input_generator: Some(InputGenerator::new()),
            prompt: builder.prompt,
            writer: builder.writer,
            #[cfg(not(feature = "history"))]
            _ph: PhantomData,
        };

        cli.writer.flush_str(cli.prompt)?;
//@ proof {   // [C06]
//@     broadcast use lemma_str_view_bytes;
//@     let pb = cli.prompt.spec_bytes();
//@     lemma_term_push(evs0.push(Ev::W(pb)), Ev::F);
//@     lemma_term_push(evs0, Ev::W(pb));
//@     if is_fresh(term_run(evs0)) && printable_bytes(pb) {
//@         lemma_show_fresh(term_run(evs0), cli.prompt@, Seq::<char>::empty());
//@         assert(cli.editor.unwrap().line() =~= Seq::<char>::empty());
//@         assert(term_put(term_put(term_run(evs0), cli.prompt@), Seq::<char>::empty()).cells =~= term_put(term_run(evs0), cli.prompt@).cells);
//@     }
//@ }

        Ok(cli)
    }

    /// Each call to process byte can be done with different
    /// command set and/or command processor.
    /// In process callback you can change some outside state
    /// so next calls will use different processor
    pub fn process_byte<C: Autocomplete + Help, P: CommandProcessor<W, E>>(
        &mut self,
        b: u8,
        processor: &mut P,
    ) -> Result<(), E> {
//@ requires old(self).wf(),
//@ ensures
//@     // C14: the session stays usable whatever happens: editor and decoder are put back, the line is well-formed text
//@     final(self).wf(),   // [C14,~C03,~C15]
//@     // C14: a failed sink operation is never swallowed.  C15: whatever was written has been flushed
//@     r is Ok ==> final(self).errs() == old(self).errs(),   // [C14]
//@     r is Ok ==> (final(self).evs() == old(self).evs() || final(self).evs().len() > 0 && final(self).evs().last() is F),   // [C15]
//@     // C04: decoding depends on the bytes only: whatever the sink does, the decoder has made exactly the abstract step
//@     dec_good(old(self).dec_view(), b) ==> final(self).dec_view() == dec_step(old(self).dec_view(), b).0,   // [C04,~C14]
//@     // C01: only a line terminator can invoke the handler, at most once, and only with the tokens of the line
//@     (b != 0x0D && b != 0x0A) ==> final(processor).calls() == old(processor).calls(),   // [C01]
//@     final(processor).calls() == old(processor).calls()
//@         || (nul_free(old(self).line_bytes()) ==> (dispatch_of(old(self).line_bytes(), feat_help()) matches Some(x)
//@             && final(processor).calls() == old(processor).calls().push(x))),   // [C01,C12,~C07]
//@     // C06: whatever byte arrives, afterwards the terminal again shows the prompt followed by the edited line with the
//@     // cursor at the editor's cursor (prompt and line being printable text; DEL and a non-printable prompt are outside)
//@     r is Ok && old(self).displayed() && final(self).printable_state() ==> final(self).displayed(),   // [C06]
        if let (Some(mut editor), Some(mut input_generator)) =
            (self.editor.take(), self.input_generator.take())
        {
//@ proof { assert(editor.wf()); assert(input_generator.wf()); }
            let result = match input_generator.accept(b) {
                Some(input) => match input {
                    Input::Control(control) => {
                        self.on_control_input::<C, _>(&mut editor, control, processor)
                    }
                    Input::Char(text) => self.on_text_input(&mut editor, text),
                },
                None => Ok(()),
            };

            self.editor = Some(editor);
            self.input_generator = Some(input_generator);
            result
        } else {
            Ok(())
        }
    }

    /// Set new prompt to use in CLI
    ///
    /// Changes will apply immediately and current line
    /// will be replaced by new prompt and input
    pub fn set_prompt(&mut self, prompt: &'static str) -> Result<(), E> {
//@ requires old(self).wf(),
//@ ensures final(self).wf(), final(self).line_bytes() == old(self).line_bytes(), final(self).cur() == old(self).cur(),
//@     final(self).prompt_bytes() == prompt.spec_bytes(),
//@     r is Ok ==> final(self).errs() == old(self).errs(),   // [C14]
//@     r is Ok ==> final(self).evs().len() > 0 && final(self).evs().last() is F,   // [C15]
//@     // C06: the line is redrawn behind the new prompt, cursor where the editor's cursor is -- whatever was shown before
//@     r is Ok && final(self).printable_state() ==> final(self).displayed(),   // [C06]
        self.prompt = prompt;
        self.clear_line(false)?;

        self.write_input()
    }

    pub fn write(
        &mut self,
        f: impl FnOnce(&mut Writer<'_, W, E>) -> Result<(), E>,
    ) -> Result<(), E> {
//@ requires old(self).wf(),
//@     // the closure may be called with any well-formed Writer and uses it through its API only (ASSUMED of callers)
//@     forall|w: &mut Writer<'_, W, E>| w.wf() ==> #[trigger] f.requires((w,)),
//@     forall|w: &mut Writer<'_, W, E>, res: Result<(), E>| #[trigger] f.ensures((w,), res) ==>
//@         crate::writer::writer_api_only(w) && (res is Ok ==> final(w).errs() == w.errs()),
//@ ensures final(self).wf(), final(self).line_bytes() == old(self).line_bytes(), final(self).cur() == old(self).cur(),   // [C13]
//@     final(self).prompt_bytes() == old(self).prompt_bytes(),
//@     r is Ok ==> final(self).errs() == old(self).errs(),   // [C14]
//@     r is Ok ==> final(self).evs().len() > 0 && final(self).evs().last() is F,   // [C15]
//@     // C06/C13: the line being edited is erased, the output goes on its own lines, and prompt and line are shown
//@     // again below it at column 0 with the cursor where it was
//@     r is Ok && final(self).printable_state() ==> final(self).displayed(),   // [C06,C13]
        self.clear_line(true)?;
//@ let ghost evs1 = self.writer.evs();

        let mut cli_writer = Writer::new(&mut self.writer);

        f(&mut cli_writer)?;

//@ let ghost evs_h = cli_writer.evs();
//@ let ghost out_h = cli_writer.out();
        // we should write back input that was there before writing
        if cli_writer.is_dirty() {
//@ let ghost evs2 = self.writer.evs();
            self.writer.write_str(codes::CRLF)?;
//@ proof {   // [C06,C13]
//@     lemma_crlf_bytes();
//@     lemma_term_push(evs2, Ev::W(codes::CRLF.spec_bytes()));
//@     lemma_term_w_controls(term_run(evs2));
//@     assert(ends_crlf(codes::CRLF.spec_bytes()));
//@ }
        }
//@ let ghost evs3 = self.writer.evs();
//@ proof {   // [C13]
//@     // C13: exactly one line break is added, and only when the output is non-empty and does not end with one
//@     lemma_crlf_bytes();
//@     // (stated over the bytes sent, not over the write calls that carry them)
//@     lemma_ev_bytes_push(evs_h, Ev::W(seq![0x0Du8, 0x0Au8]));
//@     assert(ev_bytes(evs3) == ev_bytes(evs_h) + (if out_h.len() > 0 && out_h.last() != 0x0A { seq![0x0Du8, 0x0Au8] } else { Seq::<u8>::empty() }));
//@ }
//@ proof {   // [C06,C13]
//@     if evs3.len() == evs1.len() {
//@         assert forall|i: int| 0 <= i < evs1.len() implies evs3[i] == evs1[i] by { }
//@         assert(evs3 =~= evs1);
//@     }
//@     assert(is_fresh(term_run(evs3)));
//@     broadcast use lemma_str_view_bytes;
//@     lemma_term_push(evs3, Ev::W(self.prompt.spec_bytes()));
//@     if printable_bytes(self.prompt.spec_bytes()) {
//@         lemma_show_fresh(term_run(evs3), self.prompt@, Seq::<char>::empty());
//@         assert(term_put(term_put(term_run(evs3), self.prompt@), Seq::<char>::empty()).cells =~= term_put(term_run(evs3), self.prompt@).cells);
//@     }
//@ }
        self.writer.write_str(self.prompt)?;
        self.write_input()
    }

    /// Writes current input after the prompt and leaves terminal cursor
    /// where editor cursor is (it can be inside the line)
//@ #[verifier::loop_isolation(false)]
    fn write_input(&mut self) -> Result<(), E> {
//@ requires old(self).editor is Some ==> old(self).editor.unwrap().wf(),
//@ ensures final(self).rest_eq(old(self)),
//@     r is Ok ==> final(self).writer.errs() == old(self).writer.errs(),   // [C14]
//@     r is Ok && old(self).editor is Some ==> final(self).writer.evs().len() > 0 && final(self).writer.evs().last() is F,   // [C15]
//@     // C06: behind a freshly written prompt the line is written out and the cursor taken back to the editor's cursor
//@     r is Ok && old(self).editor is Some && printable_bytes(old(self).editor.unwrap().line_bytes())
//@         && shows(term_run(old(self).writer.evs()), old(self).prompt@, Seq::<char>::empty(), 0) ==> final(self).displayed(),   // [C06,C13]
//@ ---
//@ let ghost evs0 = self.writer.evs();
//@ let ghost me0 = *self;
        if let Some(editor) = self.editor.as_mut() {
//@ let ghost l = editor.line();
//@ let ghost lb = editor.line_bytes();
//@ let ghost cur = editor.cur() as int;
//@ proof { broadcast use lemma_str_view_bytes; }
            self.writer.write_str(editor.text())?;
//@ let ghost evs1 = self.writer.evs();
//@ let ghost t1 = term_run(evs1);
//@ proof {   // [C06,C13]
//@     lemma_term_push(evs0, Ev::W(lb));
//@     assert(term_cub_n(t1, 0) == t1);
//@ }
            for _i in editor.cursor()..editor.len() {
//@ for_iter it
//@ invariant
//@     it.iter.end == l.len(), cur <= _i <= l.len(), me0.editor is Some, *editor == me0.editor.unwrap(),
//@     self.writer.errs() == me0.writer.errs(),
//@     self.prompt == me0.prompt, self.input_generator == me0.input_generator, self.same_hist(&me0),
//@     term_run(self.writer.evs()) == term_cub_n(t1, _i - cur),   // [C06,C13]
//@     self.writer.evs().len() > 0,
//@ ---
//@ let ghost evs2 = self.writer.evs();
                self.writer.write_bytes(codes::CURSOR_BACKWARD)?;
//@ proof {   // [C06,C13]
//@     lemma_term_push(evs2, Ev::W(seq_cub()));
//@     lemma_term_w_controls(term_run(evs2));
//@     assert(term_cub_n(t1, _i + 1 - cur) == term_cub(term_cub_n(t1, _i - cur)));
//@ }
            }
//@ let ghost evs3 = self.writer.evs();
            self.writer.flush()?;
//@ proof {   // [C06,C13]
//@     lemma_term_push(evs3, Ev::F);
//@     if printable_bytes(lb) && shows(term_run(evs0), me0.prompt@, Seq::<char>::empty(), 0) {
//@         lemma_show_put_end(term_run(evs0), me0.prompt@, Seq::<char>::empty(), l);
//@         assert(Seq::<char>::empty() + l =~= l);
//@         lemma_show_cub_n(t1, me0.prompt@, l, l.len() as int, l.len() - cur);
//@     }
//@ }
        }

        Ok(())
    }

    fn clear_line(&mut self, clear_prompt: bool) -> Result<(), E> {
//@ ensures final(self).rest_eq(old(self)),
//@     r is Ok ==> final(self).writer.errs() == old(self).writer.errs(),   // [C14]
//@     r is Ok ==> final(self).writer.evs().len() > 0 && final(self).writer.evs().last() is F,   // [C15]
//@     // C06: CR, erase line, (prompt): the terminal line is empty (shows just the prompt), whatever it showed before
//@     r is Ok && clear_prompt ==> is_fresh(term_run(final(self).writer.evs())),   // [C06]
//@     r is Ok && !clear_prompt && printable_bytes(old(self).prompt.spec_bytes()) ==>
//@         shows(term_run(final(self).writer.evs()), old(self).prompt@, Seq::<char>::empty(), 0),   // [C06]
//@ ---
//@ let ghost evs0 = self.writer.evs();
//@ proof { broadcast use lemma_str_view_bytes; lemma_cr_bytes(); }
        self.writer.write_str("\r")?;
        self.writer.write_bytes(codes::CLEAR_LINE)?;

        if !clear_prompt {
            self.writer.write_str(self.prompt)?;
        }

//@ let ghost evs3 = self.writer.evs();
//@ proof {   // [C06]
//@     let t0 = term_run(evs0);
//@     let e1 = evs0.push(Ev::W(seq_cr()));
//@     let e2 = e1.push(Ev::W(seq_el2()));
//@     lemma_term_push(evs0, Ev::W(seq_cr()));
//@     lemma_term_push(e1, Ev::W(seq_el2()));
//@     lemma_term_w_controls(t0);
//@     lemma_term_w_controls(term_run(e1));
//@     let t2 = term_el2(term_cr(t0));
//@     assert(term_run(e2) == t2);
//@     if clear_prompt {
//@         assert(evs3 == e2);
//@     } else {
//@         let pb = self.prompt.spec_bytes();
//@         lemma_term_push(e2, Ev::W(pb));
//@         assert(evs3 == e2.push(Ev::W(pb)));
//@         if printable_bytes(pb) {
//@             lemma_show_redraw(t0, self.prompt@, Seq::<char>::empty());
//@             assert(term_put(term_put(t2, self.prompt@), Seq::<char>::empty()).cells =~= term_put(t2, self.prompt@).cells);
//@         }
//@     }
//@     lemma_term_push(evs3, Ev::F);
//@ }
        self.writer.flush()
    }

    fn on_text_input(&mut self, editor: &mut Editor<CommandBuffer>, text: &str) -> Result<(), E> {
//@ requires old(editor).wf(), text@.len() == 1,
//@ ensures final(editor).wf(), final(editor).cap() == old(editor).cap(), final(self).rest_eq(old(self)),   // [~C01,~C02,~C03,~C05,~C06,~C11,C14,~C17]
//@     // C05/C14: the edit does not depend on the sink: the character goes in at the cursor iff it fits
//@     ({ let fits = old(editor).line_bytes().len() + text.spec_bytes().len() <= old(editor).cap();
//@        let c = old(editor).cur() as int; let l = old(editor).line();
//@        &&& fits ==> final(editor).line() == l.subrange(0, c) + text@ + l.subrange(c, l.len() as int) && final(editor).cur() == c + 1
//@        &&& !fits ==> final(editor).line_bytes() == old(editor).line_bytes() && final(editor).cur() == old(editor).cur() }),   // [C05,C14]
//@     r is Ok ==> final(self).sink_ok(old(self)),   // [C14,C15]
//@     // C06: a typed printable character is echoed where it went in (ICH first when inside the line); a rejected one
//@     // changes nothing on the terminal either
//@     r is Ok && old(self).disp(old(editor)) && printable_bytes(final(editor).line_bytes()) ==> final(self).disp(final(editor)),   // [C06]
//@ ---
//@ let ghost evs0 = self.writer.evs();
//@ let ghost l0 = editor.line();
//@ let ghost c0 = editor.cur() as int;
        let is_inside = editor.cursor() < editor.len();
        if let Some(c) = editor.insert(text) {
//@ let ghost cb = c.spec_bytes();
//@ proof {
//@     broadcast use lemma_str_view_bytes;
//@     decode_utf8_encode_utf8(cb); decode_utf8_encode_utf8(text.spec_bytes());
//@     assert(cb == text.spec_bytes());
//@ }
            if is_inside {
                // text is always one char
                proof { assert(c@.len() == 1); }
                self.writer.write_bytes(codes::INSERT_CHAR)?;
            }
//@ let ghost evs1 = self.writer.evs();
            self.writer.flush_str(c)?;
//@ proof {   // [C06]
//@     let t0 = term_run(evs0);
//@     lemma_term_push(evs1.push(Ev::W(cb)), Ev::F);
//@     lemma_term_push(evs1, Ev::W(cb));
//@     if is_inside {
//@         lemma_term_push(evs0, Ev::W(seq_ich()));
//@         lemma_term_w_controls(t0);
//@         assert(evs1 == evs0.push(Ev::W(seq_ich())));
//@     }
//@     if shows(t0, self.prompt@, l0, c0) && printable_bytes(editor.line_bytes()) {
//@         // the character that went in is part of a printable line
//@         decode_utf8_encode_utf8(editor.line_bytes());
//@         lemma_printable_part(l0.subrange(0, c0), text@, l0.subrange(c0, l0.len() as int));
//@         assert(printable_bytes(cb));
//@         if is_inside {
//@             lemma_show_insert(t0, self.prompt@, l0, c0, text@);
//@         } else {
//@             assert(l0.subrange(0, c0) =~= l0);
//@             assert(l0.subrange(c0, l0.len() as int) =~= Seq::<char>::empty());
//@             assert(l0 + text@ + Seq::<char>::empty() =~= l0 + text@);
//@             lemma_show_put_end(t0, self.prompt@, l0, text@);
//@         }
//@     }
//@ }
        }
        Ok(())
    }

    fn on_control_input<C: Autocomplete + Help, P: CommandProcessor<W, E>>(
        &mut self,
        editor: &mut Editor<CommandBuffer>,
        control: ControlInput,
        processor: &mut P,
    ) -> Result<(), E> {
//@ requires old(editor).wf(), old(self).wf_inner(),
//@ ensures final(editor).wf(), final(self).wf_inner(), final(editor).cap() == old(editor).cap(),   // [C14,~C03,~C01,~C02,~C05,~C06,~C11,~C17]
//@     final(self).editor == old(self).editor, final(self).input_generator == old(self).input_generator,
//@     r is Ok ==> final(self).sink_ok(old(self)),   // [C14,C15]
//@     // C01: no key but Enter invokes the handler
//@     !(control is Enter) ==> final(processor).calls() == old(processor).calls(),   // [C01]
//@     // C16: with history disabled Up and Down do nothing; with autocomplete disabled Tab does nothing
//@     !feat_history() && (control is Up || control is Down) ==>
//@         final(editor).line_bytes() == old(editor).line_bytes() && final(editor).cur() == old(editor).cur()
//@         && final(self).writer.evs() == old(self).writer.evs() && final(self).prompt == old(self).prompt && r is Ok,   // [C16]
//@     !feat_autocomplete() && control is Tab ==>
//@         final(editor).line_bytes() == old(editor).line_bytes() && final(editor).cur() == old(editor).cur()
//@         && final(self).writer.evs() == old(self).writer.evs() && final(self).prompt == old(self).prompt && r is Ok,   // [C16]
//@     // C01: Enter invokes it at most once and only with the tokens of the line as it stood
//@     control is Enter ==> (final(processor).calls() == old(processor).calls()
//@         || (nul_free(old(editor).line_bytes()) ==> (dispatch_of(old(editor).line_bytes(), feat_help()) matches Some(x)
//@             && final(processor).calls() == old(processor).calls().push(x)))),   // [C01,C12,~C07]
//@     // C01: when nothing failed, it is invoked exactly when the line has a token and is not a help request;
//@     // afterwards the line is empty and a fresh prompt has been printed
//@     control is Enter && r is Ok && nul_free(old(editor).line_bytes()) ==>
//@         final(processor).calls() == (match dispatch_of(old(editor).line_bytes(), feat_help()) {
//@             Some(x) => old(processor).calls().push(x), None => old(processor).calls() }),   // [C01,C12,~C07]
//@     control is Enter && r is Ok ==> final(editor).line_bytes() == Seq::<u8>::empty() && final(editor).cur() == 0
//@         && final(self).writer.evs().len() >= 2
//@         && final(self).writer.evs()[final(self).writer.evs().len() - 2] == Ev::W(final(self).prompt.spec_bytes()),   // [C01]
//@     // C14: after a failed Enter the line is as it was or cleared, never a tokenised mixture
//@     control is Enter && r is Err ==> (final(editor).line_bytes() == old(editor).line_bytes() && final(editor).cur() == old(editor).cur())
//@         || (final(editor).line_bytes() == Seq::<u8>::empty() && final(editor).cur() == 0),   // [C14]
//@     // C05 at the session level: Backspace removes the character before the cursor, Left / Right move by one whole
//@     // character and stop at the ends -- whatever the sink does (C14: after a failed write the line is as the key
//@     // would have left it, never a mixture)
//@     control is Backspace ==> ({ let l = old(editor).line(); let c = old(editor).cur() as int;
//@         &&& c > 0 ==> final(editor).line() == l.remove(c - 1) && final(editor).cur() == c - 1
//@         &&& c == 0 ==> final(editor).line() == l && final(editor).cur() == 0 }),   // [C05,~C01,C17,C14]
//@     control is Back ==> final(editor).line_bytes() == old(editor).line_bytes()
//@         && final(editor).cur() == (if old(editor).cur() > 0 { old(editor).cur() - 1 } else { 0 }) as nat,   // [C05,~C01,C14]
//@     control is Forward ==> final(editor).line_bytes() == old(editor).line_bytes()
//@         && final(editor).cur() == (if old(editor).cur() < old(editor).line().len() { old(editor).cur() + 1 } else { old(editor).cur() }),   // [C05,~C01,C14]
//@     // C10 at the session level: Up / Down recall submitted lines (see navigate_history), Enter records the line as
//@     // submitted (byte for byte, before tokenisation), every other key leaves the history alone
//@     feat_history() && control is Up ==> final(self).hist_entries() == old(self).hist_entries()
//@         && (match nav_older(old(self).hist_entries().len() as int, old(self).hist_nav()) {
//@             Some(t) => final(editor).line_bytes() == (if old(self).hist_entries()[t].len() <= old(editor).cap() { old(self).hist_entries()[t] } else { Seq::<u8>::empty() }),
//@             None => final(editor).line_bytes() == old(editor).line_bytes() && final(editor).cur() == old(editor).cur() }),   // [C10,~C01,C14]
//@     feat_history() && control is Down ==> final(self).hist_entries() == old(self).hist_entries()
//@         && (match nav_newer(old(self).hist_entries().len() as int, old(self).hist_nav()) {
//@             Some(t) => final(editor).line_bytes() == (if old(self).hist_entries()[t].len() <= old(editor).cap() { old(self).hist_entries()[t] } else { Seq::<u8>::empty() }),
//@             None => final(editor).line_bytes() == Seq::<u8>::empty() }),   // [C10,~C01,C14]
//@     feat_history() && control is Enter && r is Ok ==> ({
//@         let l = old(editor).line_bytes(); let es = old(self).hist_entries(); let hc = old(self).hist_cap();
//@         &&& recordable(l, hc) ==> final(self).hist_entries() == hist_push(es, l, hc) && final(self).hist_nav() is None
//@         &&& !recordable(l, hc) ==> final(self).hist_entries() == es && final(self).hist_nav() == old(self).hist_nav() }),   // [C10]
//@     !(control is Enter || control is Up || control is Down) ==> final(self).hist_entries() == old(self).hist_entries()
//@         && final(self).hist_nav() == old(self).hist_nav(),   // [C10]
//@     // C06: after every key the terminal shows the current prompt followed by the edited line, cursor at the editor's
//@     // cursor (as long as prompt and line are printable text)
//@     r is Ok && old(self).disp(old(editor)) && final(self).printable_with(final(editor)) ==> final(self).disp(final(editor)),   // [C06]
//@ ---
//@ let ghost evs0 = self.writer.evs();
//@ let ghost l0 = editor.line();
//@ let ghost c0 = editor.cur() as int;
        match control {
            ControlInput::Enter => {
                self.writer.write_str(codes::CRLF)?;
//@ proof {   // [C06,C13]
//@     lemma_crlf_bytes();
//@     lemma_term_push(evs0, Ev::W(codes::CRLF.spec_bytes()));
//@     lemma_term_w_controls(term_run(evs0));
//@     assert(ends_crlf(codes::CRLF.spec_bytes()));
//@     assert(is_fresh(term_run(self.writer.evs())));
//@ }

                #[cfg(feature = "history")]
                self.history.push(editor.text());
                let text = editor.text_mut();

                let tokens = Tokens::new(text);
                let result = self.process_input::<C, _>(tokens, processor);

                // line was tokenized in place, so it is cleared even if processing failed
                editor.clear();
                result?;
//@ let ghost evs5 = self.writer.evs();

                self.writer.flush_str(self.prompt)?;
//@ proof {   // [C06]
//@     broadcast use lemma_str_view_bytes;
//@     let pb = self.prompt.spec_bytes();
//@     lemma_term_push(evs5.push(Ev::W(pb)), Ev::F);
//@     lemma_term_push(evs5, Ev::W(pb));
//@     if printable_bytes(pb) {
//@         lemma_show_fresh(term_run(evs5), self.prompt@, Seq::<char>::empty());
//@         assert(editor.line() =~= Seq::<char>::empty());
//@         assert(term_put(term_put(term_run(evs5), self.prompt@), Seq::<char>::empty()).cells =~= term_put(term_run(evs5), self.prompt@).cells);
//@     }
//@ }
            }
            ControlInput::Tab => {
                #[cfg(feature = "autocomplete")]
                self.process_autocomplete::<C>(editor)?;
            }
            ControlInput::Backspace => {
                if editor.move_left() {
                    editor.remove();
                    self.writer.flush_bytes(codes::CURSOR_BACKWARD)?;
                    self.writer.flush_bytes(codes::DELETE_CHAR)?;
//@ proof {   // [C06]
//@     let t0 = term_run(evs0);
//@     let e1 = evs0.push(Ev::W(seq_cub()));
//@     let e2 = e1.push(Ev::F);
//@     let e3 = e2.push(Ev::W(seq_dch()));
//@     lemma_term_push(evs0, Ev::W(seq_cub())); lemma_term_push(e1, Ev::F);
//@     lemma_term_push(e2, Ev::W(seq_dch())); lemma_term_push(e3, Ev::F);
//@     lemma_term_w_controls(t0); lemma_term_w_controls(term_run(e2));
//@     if shows(t0, self.prompt@, l0, c0) { lemma_show_backspace(t0, self.prompt@, l0, c0); }
//@ }
                }
            }
            ControlInput::Down =>
            {
                #[cfg(feature = "history")]
                self.navigate_history(editor, NavigateHistory::Newer)?
            }
            ControlInput::Up =>
            {
                #[cfg(feature = "history")]
                self.navigate_history(editor, NavigateHistory::Older)?
            }
            ControlInput::Forward => self.navigate_input(editor, NavigateInput::Forward)?,
            ControlInput::Back => self.navigate_input(editor, NavigateInput::Backward)?,
        }

        Ok(())
    }

    fn navigate_input(
        &mut self,
        editor: &mut Editor<CommandBuffer>,
        dir: NavigateInput,
    ) -> Result<(), E> {
//@ requires old(editor).wf(),
//@ ensures final(editor).wf(), final(editor).cap() == old(editor).cap(), final(self).rest_eq(old(self)),   // [~C01,~C02,~C03,~C05,~C06,~C11,C14,~C17]
//@     final(editor).line_bytes() == old(editor).line_bytes(),   // [C05,C14]
//@     dir is Backward ==> final(editor).cur() == (if old(editor).cur() > 0 { old(editor).cur() - 1 } else { 0 }) as nat,   // [C05,~C01,C14]
//@     dir is Forward ==> final(editor).cur() == (if old(editor).cur() < old(editor).line().len() { old(editor).cur() + 1 } else { old(editor).cur() }),   // [C05,~C01,C14]
//@     r is Ok ==> final(self).sink_ok(old(self)),   // [C14,C15]
//@     // C06: the terminal cursor follows the editor cursor, and stays where it is at the ends of the line
//@     r is Ok && old(self).disp(old(editor)) ==> final(self).disp(final(editor)),   // [C06]
//@ ---
//@ let ghost evs0 = self.writer.evs();
//@ proof { lemma_term_w_controls(term_run(evs0)); }
        match dir {
            NavigateInput::Backward => if editor.move_left() {
                self.writer.flush_bytes(codes::CURSOR_BACKWARD)?;
//@ proof { lemma_term_push(evs0.push(Ev::W(seq_cub())), Ev::F); lemma_term_push(evs0, Ev::W(seq_cub())); }   // [C06]
            } else { return Ok(()) },
            NavigateInput::Forward => if editor.move_right() {
                self.writer.flush_bytes(codes::CURSOR_FORWARD)?;
//@ proof { lemma_term_push(evs0.push(Ev::W(seq_cuf())), Ev::F); lemma_term_push(evs0, Ev::W(seq_cuf())); }   // [C06]
            } else { return Ok(()) },
        }
        Ok(())
    }

    #[cfg(feature = "history")]
    fn navigate_history(
        &mut self,
        editor: &mut Editor<CommandBuffer>,
        dir: NavigateHistory,
    ) -> Result<(), E> {
//@ requires old(editor).wf(), old(self).wf_inner(),
//@ ensures final(editor).wf(), final(self).wf_inner(), final(editor).cap() == old(editor).cap(),   // [~C01,~C02,~C03,~C05,~C06,~C11,C14,~C17]
//@     final(self).editor == old(self).editor, final(self).input_generator == old(self).input_generator, final(self).prompt == old(self).prompt,
//@     r is Ok ==> final(self).sink_ok(old(self)),   // [C14,C15]
//@     // C06: a recalled line (or the empty line past the newest) replaces what the terminal showed; otherwise nothing changes
//@     r is Ok && old(self).disp(old(editor)) && final(self).printable_with(final(editor)) ==> final(self).disp(final(editor)),   // [C06]
//@     // C10 at the session level: Up puts the next older submitted line into the editor, byte for byte (past the oldest
//@     // nothing changes); Down the next newer one, or the empty line past the newest.  The sink plays no role.
//@     ({ let es = old(self).hist_entries(); let n = es.len() as int; let nav = old(self).hist_nav();
//@        let cap = old(editor).cap();
//@        &&& final(self).hist_entries() == es
//@        &&& dir is Older ==> (match nav_older(n, nav) {
//@                Some(t) => final(self).hist_nav() == Some(t)
//@                    && final(editor).line_bytes() == (if es[t].len() <= cap { es[t] } else { Seq::<u8>::empty() }),
//@                None => final(self).hist_nav() == nav && final(editor).line_bytes() == old(editor).line_bytes()
//@                    && final(editor).cur() == old(editor).cur() })
//@        &&& dir is Newer ==> final(self).hist_nav() == nav_newer(n, nav) && (match nav_newer(n, nav) {
//@                Some(t) => final(editor).line_bytes() == (if es[t].len() <= cap { es[t] } else { Seq::<u8>::empty() }),
//@                None => final(editor).line_bytes() == Seq::<u8>::empty() }) }),   // [C10,~C01,C14]
        let history_elem = match dir {
            NavigateHistory::Older => self.history.next_older(),
            NavigateHistory::Newer => self.history.next_newer().or(Some("")),
        };
        if let Some(element) = history_elem {
//@ let ghost eb = element.spec_bytes();
            editor.clear();
            editor.insert(element);
//@ proof {   // [C10,~C01]
//@     broadcast use lemma_str_view_bytes;
//@     if eb.len() <= editor.cap() {
//@         assert(Seq::<char>::empty().subrange(0, 0) + element@ + Seq::<char>::empty().subrange(0, 0) =~= element@);
//@         editor.lemma_line_valid();
//@         decode_utf8_encode_utf8(editor.line_bytes()); decode_utf8_encode_utf8(eb);
//@         assert(editor.line_bytes() == eb);
//@     }
//@     reveal_strlit("");
//@ }
//@ proof {
//@     assert(Seq::<char>::empty().subrange(0, 0) + element@ + Seq::<char>::empty().subrange(0, 0) =~= element@);
//@     assert(editor.cur() == editor.line().len());
//@ }
            self.clear_line(false)?;
//@ let ghost evs1 = self.writer.evs();
//@ let ghost lb = editor.line_bytes();

            self.writer.flush_str(editor.text())?;
//@ proof {   // [C06]
//@     broadcast use lemma_str_view_bytes;
//@     lemma_term_push(evs1.push(Ev::W(lb)), Ev::F);
//@     lemma_term_push(evs1, Ev::W(lb));
//@     if printable_bytes(self.prompt.spec_bytes()) && printable_bytes(lb) {
//@         lemma_show_put_end(term_run(evs1), self.prompt@, Seq::<char>::empty(), editor.line());
//@         assert(Seq::<char>::empty() + editor.line() =~= editor.line());
//@     }
//@ }
        }
        Ok(())
    }

    #[cfg(feature = "autocomplete")]
    fn process_autocomplete<C: Autocomplete>(
        &mut self,
        editor: &mut Editor<CommandBuffer>,
    ) -> Result<(), E> {
//@ requires old(editor).wf(),
//@ ensures final(editor).wf(), final(editor).cap() == old(editor).cap(), final(self).rest_eq(old(self)),   // [~C01,~C02,~C03,~C05,~C06,~C11,C14,~C17]
//@     r is Ok ==> final(self).sink_ok(old(self)),   // [C14,C15]
//@     // C11 (top level): Tab on a line that is a single partially typed word (up to the blanks right of the cursor)
//@     // extends it by what the names of C plus the built-in `help` that start with the word have in common --
//@     // their longest common continuation whenever every one of them fits -- and appends a space exactly when one
//@     // name matched, is there in full and there is room; when nothing matches or an argument has been started the
//@     // line is unchanged; the typed word is never altered and the command buffer never exceeded (wf)
//@     ({ let line = old(editor).line_bytes(); let rl = old(editor).ac_req_len(); let cap = old(editor).cap() as int;
//@        match ac_word(line.subrange(0, rl)) {
//@            None => final(editor).line_bytes() == line && final(editor).cur() == old(editor).cur(),
//@            Some(w) => exists|st: AcState| ac_inv(st, conts(C::names().push(help_word()), w), cap - rl)
//@                && final(editor).line_bytes() == #[trigger] ac_apply(line, rl, st, cap)
//@                && (st.auto is None ==> final(editor).cur() == old(editor).cur())
//@                && (st.auto is Some ==> final(editor).cur() == final(editor).line().len()),
//@        } }),   // [C11,C14]
//@     // C06: what was completed is echoed from the old cursor position on, so the terminal shows the new line
//@     r is Ok && old(self).disp(old(editor)) && printable_bytes(final(editor).line_bytes()) ==> final(self).disp(final(editor)),   // [C06]
        let initial_cursor = editor.cursor();
//@ let ghost line0 = editor.line_bytes();
//@ let ghost rl0 = editor.ac_req_len();
//@ let ghost l0 = editor.line();
//@ let ghost evs0 = self.writer.evs();
        editor.autocompletion(|request: Request<'_>, autocompletion: &mut Autocompletion<'_>| {
//@ requires autocompletion.wf(),
//@ ensures crate::autocomplete::ac_api_only(autocompletion),
//@     final(autocompletion).cands@ == old(autocompletion).cands@ + conts(C::names().push(help_word()), request.name()),   // [C11]
//@     ac_inv(old(autocompletion).state(), old(autocompletion).cands@, old(autocompletion).room())
//@         ==> ac_inv(final(autocompletion).state(), final(autocompletion).cands@, old(autocompletion).room()),   // [C11]
//@ ---
//@ let ghost cands0 = autocompletion.cands@;
//@ let ghost w = request.name();
//@ proof {
//@     lemma_conts_concat(C::names(), seq![help_word()], w);
//@     lemma_conts_one(help_word(), w);
//@     assert(C::names().push(help_word()) =~= C::names() + seq![help_word()]);
//@ }
//@ proof { broadcast use axiom_str_len_bound; broadcast use lemma_str_view_bytes; lemma_help_word(); }
            C::autocomplete(request.clone(), autocompletion);
            match request {
                Request::CommandName(name) if crate::verif_specs::str_starts_with("help", name) => {
                    // SAFETY: "help" starts with name, so name cannot be longer
//@ proof {   // [C02]
//@     // "help" is ASCII: every index is a character boundary
//@     lemma_help_word();
//@     let h = "help".spec_bytes();
//@     assert(valid_utf8(h));
//@     if name.spec_bytes().len() < 4 { lemma_ascii_boundaries(h, name.spec_bytes().len() as int); }
//@     is_char_boundary_start_end_of_seq(h);
//@ }
                    let autocompleted = unsafe { "help".get_unchecked(name.len()..) };
//@ let ghost mid = autocompletion.cands@;
                    autocompletion.merge_autocompletion(autocompleted)
//@ ;
//@ proof {   // [C11]
//@     assert(name.spec_bytes() == w);
//@     assert(is_prefix_of(w, help_word()));
//@     let c = help_word().subrange(w.len() as int, 4);
//@     assert(autocompleted.spec_bytes() == c);
//@     assert(mid == cands0 + conts(C::names(), w));
//@     assert(mid.push(c) =~= cands0 + (conts(C::names(), w) + seq![c]));
//@ }
                }
                _ => {
//@ proof {   // [C11]
//@     assert(!is_prefix_of(w, help_word()));
//@     assert(cands0 + conts(C::names(), w) =~= cands0 + (conts(C::names(), w) + Seq::<Seq<u8>>::empty()));
//@ }
                }
            }
        });
//@ let ghost l2 = editor.line();
        if editor.cursor() > initial_cursor {
            let autocompleted = editor.text_range(initial_cursor..);
//@ let ghost ab = autocompleted.spec_bytes();
            self.writer.flush_str(autocompleted)?;
//@ proof {   // [C06]
//@     broadcast use lemma_str_view_bytes;
//@     lemma_term_push(evs0.push(Ev::W(ab)), Ev::F);
//@     lemma_term_push(evs0, Ev::W(ab));
//@     let ic = initial_cursor as int;
//@     if shows(term_run(evs0), self.prompt@, l0, ic) && printable_bytes(editor.line_bytes()) {
//@         // the echoed tail of a printable line is printable
//@         lemma_split_at_char(editor.line_bytes(), ic);
//@         decode_utf8_encode_utf8(ab);
//@         assert(ab == editor.line_bytes().subrange(byte_off(l2, ic), editor.line_bytes().len() as int));
//@         assert(printable_bytes(ab)) by {
//@             let lb = editor.line_bytes(); let o = byte_off(l2, ic);
//@             assert forall|i: int| 0 <= i < ab.len() implies #[trigger] ab[i] >= 0x20 && ab[i] != 0x7F by { assert(ab[i] == lb[o + i]); }
//@         }
//@         lemma_show_complete(term_run(evs0), self.prompt@, l0, ic, l2);
//@     }
//@ }
        }
//@ proof {   // [C06]
//@     let ic = initial_cursor as int;
//@     if editor.cur() <= ic && shows(term_run(evs0), self.prompt@, l0, ic) && l2 != l0 {
//@         assert(editor.cur() == l2.len());
//@         assert(ic == old(editor).cur());
//@         assert(ic <= l2.len());
//@         assert(editor.cur() <= ic);
//@         assert(l2.len() == ic);
//@         assert(l2 =~= l2.subrange(0, ic));
//@         assert(l2 == l0.subrange(0, l2.len() as int));
//@         lemma_show_shrink(term_run(evs0), self.prompt@, l0, ic, l2);
//@     }
//@ }
        Ok(())
    }

    fn process_command<P: CommandProcessor<W, E>>(
        &mut self,
        command: RawCommand<'_>,
        handler: &mut P,
    ) -> Result<(), E> {
//@ ensures final(self).editor == old(self).editor, final(self).input_generator == old(self).input_generator, final(self).same_hist(old(self)),
//@     // C01: the handler is called exactly once with this command
//@     final(handler).calls() == old(handler).calls().push((command.name_bytes(), command.arg_tokens())),   // [C01]
//@     r is Ok ==> final(self).writer.errs() == old(self).writer.errs(),   // [C14]
//@     r is Ok ==> final(self).writer.evs().len() > 0 && final(self).writer.evs().last() is F,   // [C15]
//@     // C06/C13: whatever the handler printed, the terminal is at the start of an empty line afterwards: one line break
//@     // is added iff the output is non-empty and does not end with one
//@     r is Ok && is_fresh(term_run(old(self).writer.evs())) ==> is_fresh(term_run(final(self).writer.evs())),   // [C06,C13]
//@ ---
//@ let ghost evs0 = self.writer.evs();
        let cli_writer = Writer::new(&mut self.writer);
        let mut handle = CliHandle::new(cli_writer);

        let res = handler.process(&mut handle, command);

        if let Some(prompt) = handle.new_prompt {
            self.prompt = prompt;
        }
//@ let ghost no_fail = handle.writer.errs() == old(self).writer.errs();
//@ proof {   // [C06,C13]
//@     // as long as no sink operation failed: the Writer is well-formed and the log only grew
//@     if no_fail && handle.writer.evs().len() == evs0.len() {
//@         assert forall|i: int| 0 <= i < evs0.len() implies handle.writer.evs()[i] == evs0[i] by { }
//@         assert(handle.writer.evs() =~= evs0);
//@     }
//@ }
//@ let ghost evs_h = handle.writer.evs();
//@ let ghost out_h = handle.writer.out();
        if handle.writer.is_dirty() {
//@ let ghost evs2 = self.writer.evs();
            self.writer.write_str(codes::CRLF)?;
//@ proof {   // [C06,C13]
//@     lemma_crlf_bytes();
//@     lemma_term_push(evs2, Ev::W(codes::CRLF.spec_bytes()));
//@     lemma_term_w_controls(term_run(evs2));
//@     assert(ends_crlf(codes::CRLF.spec_bytes()));
//@ }
        }
//@ let ghost evs3 = self.writer.evs();
//@ proof {   // [C13]
//@     // C13: exactly one line break is added, and only when the output is non-empty and does not end with one
//@     lemma_crlf_bytes();
//@     // (stated over the bytes sent, not over the write calls that carry them)
//@     lemma_ev_bytes_push(evs_h, Ev::W(seq![0x0Du8, 0x0Au8]));
//@     assert(no_fail ==> ev_bytes(evs3) == ev_bytes(evs_h) + (if out_h.len() > 0 && out_h.last() != 0x0A { seq![0x0Du8, 0x0Au8] } else { Seq::<u8>::empty() }));
//@ }
//@ proof { lemma_term_push(evs3, Ev::F); }   // [C06,C13]
        self.writer.flush()?;

        match res {
            Err(ProcessError::ParseError(err)) => self.process_error(err),
            Err(ProcessError::WriteError(err)) => Err(err),
            Ok(()) => Ok(()),
        }
    }

    #[allow(clippy::extra_unused_type_parameters)]
    fn process_input<C: Help, P: CommandProcessor<W, E>>(
        &mut self,
        tokens: Tokens<'_>,
        handler: &mut P,
    ) -> Result<(), E> {
//@ ensures final(self).editor == old(self).editor, final(self).input_generator == old(self).input_generator, final(self).same_hist(old(self)),
//@     // C01 / C12: the handler is called iff there is a command and it is not a help request, with exactly the tokens
//@     final(handler).calls() == (
//@         if tokens.view().len() == 0 { old(handler).calls() }
//@         else if feat_help() && wants_help(tokens.view()[0], tokens.view().drop_first()) { old(handler).calls() }
//@         else { old(handler).calls().push((tokens.view()[0], tokens.view().drop_first())) }),   // [C01,C12,~C07]
//@     r is Ok ==> final(self).sink_ok(old(self)),   // [C14,C15]
//@     r is Ok && is_fresh(term_run(old(self).writer.evs())) ==> is_fresh(term_run(final(self).writer.evs())),   // [C06,C13]
        if let Some(command) = RawCommand::from_tokens(&tokens) {
            #[cfg(feature = "help")]
            if let Some(request) = HelpRequest::from_command(&command) {
                return self.process_help::<C>(request);
            }

            self.process_command(command, handler)?;
        };

        Ok(())
    }

    fn process_error(&mut self, error: ParseError<'_>) -> Result<(), E> {
//@ ensures final(self).rest_eq(old(self)),
//@     r is Ok ==> final(self).writer.errs() == old(self).writer.errs(),   // [C14]
//@     r is Ok ==> final(self).writer.evs().len() > 0 && final(self).writer.evs().last() is F,   // [C15]
//@     // C06/C13: the message ends with a line break: the terminal is at the start of an empty line afterwards
//@     r is Ok ==> is_fresh(term_run(final(self).writer.evs())),   // [C06,C13]
        self.writer.write_str("error: ")?;
        match error {
            ParseError::MissingRequiredArgument { name } => {
                self.writer.write_str("missing required argument: ")?;
                self.writer.write_str(name)?;
            }
            ParseError::ParseValueError { value, expected } => {
                self.writer.write_str("failed to parse '")?;
                self.writer.write_str(value)?;
                self.writer.write_str("', expected ")?;
                self.writer.write_str(expected)?;
            }
            ParseError::UnexpectedArgument { value } => {
                self.writer.write_str("unexpected argument: ")?;
                self.writer.write_str(value)?;
            }
            ParseError::UnexpectedLongOption { name } => {
                self.writer.write_str("unexpected option: -")?;
                self.writer.write_str("-")?;
                self.writer.write_str(name)?;
            }
            ParseError::UnexpectedShortOption { name } => {
                let mut buf = [0; 4];
                let buf = utils::encode_utf8(name, &mut buf);
                self.writer.write_str("unexpected option: -")?;
                self.writer.write_str(buf)?;
            }
            ParseError::UnknownCommand => {
                self.writer.write_str("unknown command")?;
            }
        }
//@ let ghost evsk = self.writer.evs();
//@ proof {   // [C06,C13]
//@     lemma_crlf_bytes();
//@     lemma_term_push(evsk.push(Ev::W(codes::CRLF.spec_bytes())), Ev::F);
//@     lemma_term_push(evsk, Ev::W(codes::CRLF.spec_bytes()));
//@     lemma_term_w_controls(term_run(evsk));
//@     assert(ends_crlf(codes::CRLF.spec_bytes()));
//@ }
        self.writer.flush_str(codes::CRLF)
    }

    #[cfg(feature = "help")]
    fn process_help<C: Help>(&mut self, request: HelpRequest<'_>) -> Result<(), E> {
//@ ensures final(self).rest_eq(old(self)),
//@     r is Ok ==> final(self).writer.errs() == old(self).writer.errs(),   // [C14]
//@     r is Ok ==> final(self).writer.evs().len() > 0 && final(self).writer.evs().last() is F,   // [C15]
//@     // C06/C13: help output ends on its own line
//@     r is Ok && is_fresh(term_run(old(self).writer.evs())) ==> is_fresh(term_run(final(self).writer.evs())),   // [C06,C13]
//@ ---
//@ let ghost evs0 = self.writer.evs();
        let mut writer = Writer::new(&mut self.writer);

        match request {
            HelpRequest::All => C::list_commands(&mut writer)?,
            HelpRequest::Command(command) => {
                match C::command_help(&mut |_p: &mut Writer<'_, W, E>| -> (r: Result<(), E>) ensures r is Ok, *final(_p) == *old(_p) { Ok(()) }, command.clone(), &mut writer) {
                    Err(HelpError::UnknownCommand) => {
//@ let ghost out_u = writer.out();
                        writer.write_str("error: ")?;
                        writer.write_str("unknown command")?;
//@ proof {   // [C12]
//@     // C12: asking about an unknown or hidden command prints `error: unknown command`
//@     lemma_unknown_command_msg();
//@     lemma_crlf_no_lf("error: ".spec_bytes());
//@     lemma_crlf_no_lf("unknown command".spec_bytes());
//@     assert(writer.out() =~= out_u + unknown_command_msg());
//@ }
                    }
                    Err(HelpError::WriteError(err)) => return Err(err),
                    Ok(()) => {}
                }
            }
        };

//@ let ghost no_fail = writer.errs() == old(self).writer.errs();
//@ proof {   // [C06,C13]
//@     if no_fail && writer.evs().len() == evs0.len() {
//@         assert forall|i: int| 0 <= i < evs0.len() implies writer.evs()[i] == evs0[i] by { }
//@         assert(writer.evs() =~= evs0);
//@     }
//@ }
//@ let ghost evs_h = writer.evs();
//@ let ghost out_h = writer.out();
        if writer.is_dirty() {
//@ let ghost evs2 = self.writer.evs();
            self.writer.write_str(codes::CRLF)?;
//@ proof {   // [C06,C13]
//@     lemma_crlf_bytes();
//@     lemma_term_push(evs2, Ev::W(codes::CRLF.spec_bytes()));
//@     lemma_term_w_controls(term_run(evs2));
//@     assert(ends_crlf(codes::CRLF.spec_bytes()));
//@ }
        }
//@ let ghost evs3 = self.writer.evs();
//@ proof {   // [C13]
//@     // C13: exactly one line break is added, and only when the output is non-empty and does not end with one
//@     lemma_crlf_bytes();
//@     // (stated over the bytes sent, not over the write calls that carry them)
//@     lemma_ev_bytes_push(evs_h, Ev::W(seq![0x0Du8, 0x0Au8]));
//@     assert(no_fail ==> ev_bytes(evs3) == ev_bytes(evs_h) + (if out_h.len() > 0 && out_h.last() != 0x0A { seq![0x0Du8, 0x0Au8] } else { Seq::<u8>::empty() }));
//@ }
//@ proof { lemma_term_push(evs3, Ev::F); }   // [C06,C13]
        self.writer.flush()?;

        Ok(())
    }
}
