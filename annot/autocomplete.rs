use crate::utils;

#[derive(Debug)]
#[non_exhaustive]
pub enum Request<'a> {
    /// Request to autocomplete given text to command name
    CommandName(&'a str),
}

impl<'a> Clone for Request<'a> {
    fn clone(&self) -> Self {
//@ ensures r == *self,
        match self {
            Request::CommandName(name) => Request::CommandName(name),
        }
    }
}

impl<'a> Request<'a> {
//@ /// the partially typed command name this request carries
//@ pub open spec fn name(&self) -> Seq<u8> { match *self { Request::CommandName(n) => n.spec_bytes() } }
    pub fn from_input(input: &'a str) -> Option<Self> {
//@ ensures
//@     // C11: completion is attempted only for a single partially typed word (leading blanks aside)
//@     ({ let w = trim_start_spec(input.spec_bytes());
//@        &&& (r is Some) == (w.len() > 0 && !w.contains(0x20u8))
//@        &&& r is Some ==> r.unwrap().name() == w }),   // [C11]
        let input = utils::trim_start(input);

        if input.is_empty() {
            return None;
        }

        // if no space given, then only command name is entered so we complete it
        if !crate::verif_specs::contains_byte(input.as_bytes(), b' ') {
            Some(Request::CommandName(input))
        } else {
            None
        }
    }
}

pub struct Autocompletion<'a> {
    pub autocompleted: Option<usize>,
    pub buffer: &'a mut [u8],
    pub partial: bool,
//@ /// GHOST: the candidates merged so far (erased at run time)
//@ pub cands: Ghost<Seq<Seq<u8>>>,
}

impl<'a> Autocompletion<'a> {
//@ /// bytes available for the continuation
//@ pub open spec fn room(&self) -> int { self.buffer@.len() as int }
//@ /// the continuation merged so far (abstraction function)
//@ pub open spec fn state(&self) -> AcState {
//@     AcState { auto: match self.autocompleted { Some(n) => Some(self.buffer@.subrange(0, n as int)), None => None },
//@               partial: self.partial }
//@ }
//@ pub open spec fn buf(&self) -> Seq<u8> { self.buffer@ }
//@ /// contents of the underlying buffer once this completion is dropped
//@ #[verifier::prophetic]
//@ pub open spec fn fin(&self) -> Seq<u8> { final(self.buffer)@ }
//@ pub open spec fn wf(&self) -> bool {
//@     self.autocompleted matches Some(n) ==> n <= self.buffer@.len() && valid_utf8(self.buffer@.subrange(0, n as int))
//@ }
    pub fn new(buffer: &'a mut [u8]) -> Self {
//@ ensures r.wf(), r.room() == old(buffer)@.len(), r.state() == (AcState { auto: None, partial: false }),   // [C11,~C02,~C03]
//@     r.buf() == old(buffer)@, r.fin() == final(buffer)@, r.cands@ == Seq::<Seq<u8>>::empty(),   // [C11]
//@     ac_inv(r.state(), r.cands@, r.room()),   // [C11]
        Self {
            autocompleted: None,
            buffer,
            partial: false,
//@ cands: Ghost(Seq::empty()),
        }
    }

    pub fn autocompleted(&self) -> Option<&str> {
//@ requires self.wf(),
//@ ensures r is Some == self.state().auto is Some, r is Some ==> r.unwrap().spec_bytes() == self.state().auto.unwrap(),   // [C02,C11]
        match self.autocompleted { Some(len) => Some({
            // SAFETY: we store only &str in this buffer, so it is a valid utf-8 sequence
            unsafe { core::str::from_utf8_unchecked(&self.buffer[..len]) }
        }), None => None }
    }

    /// Whether autocompletion is partial
    /// and further input is required
    pub fn is_partial(&self) -> bool {
//@ ensures r == self.state().partial,
        self.partial
    }

    /// Mark this autocompletion as partial
    pub fn mark_partial(&mut self) {
//@ ensures final(self).state() == (AcState { partial: true, ..old(self).state() }), final(self).room() == old(self).room(), final(self).cands == old(self).cands,
//@     final(self).fin() == old(self).fin(), final(self).wf() == old(self).wf(), final(self).buf() == old(self).buf(),
        self.partial = true;
    }

    /// Merge this autocompletion with another one
    pub fn merge_autocompletion(&mut self, autocompletion: &str) {
//@ requires old(self).wf(),
//@ ensures final(self).wf(), final(self).room() == old(self).room(), final(self).fin() == old(self).fin(),   // [C11,~C02,~C03]
//@     // C11: the merged continuation is the common prefix (on a character boundary) of what was there and the
//@     // new candidate; it is marked partial as soon as it is shorter than a candidate or a second one arrives
//@     final(self).state() == merge_step(old(self).room(), old(self).state(), autocompletion.spec_bytes()),   // [C11]
//@     final(self).cands@ == old(self).cands@.push(autocompletion.spec_bytes()),
//@     // C11: what is merged stays a common continuation of all candidates, and the completion is called complete
//@     // (space appended) only when exactly one candidate was merged
//@     ac_sem(old(self).state(), old(self).cands@) ==> ac_sem(final(self).state(), final(self).cands@),   // [C11]
//@     ac_sem(old(self).state(), old(self).cands@) && ac_exact(old(self).state(), old(self).cands@)
//@         ==> ac_exact(final(self).state(), final(self).cands@),   // [C11]
//@     // C11: as long as every candidate fits, the merged continuation is their longest common continuation
//@     ac_sem(old(self).state(), old(self).cands@) && ac_lcc(old(self).state(), old(self).cands@, old(self).room())
//@         ==> ac_lcc(final(self).state(), final(self).cands@, old(self).room()),   // [C11]
//@     ac_inv(old(self).state(), old(self).cands@, old(self).room()) ==> ac_inv(final(self).state(), final(self).cands@, old(self).room()),   // [C11]
//@     final(self).buf().len() == old(self).buf().len(),
//@     final(self).state().auto is None ==> final(self).buf() == old(self).buf(),
//@     old(self).state().auto is Some ==> final(self).state().auto is Some,
//@ ---
//@ proof { broadcast use axiom_str_len_bound; broadcast use lemma_str_view_bytes; }
//@ let ghost cand = autocompletion.spec_bytes();
//@ proof { self.cands = Ghost(self.cands@.push(cand)); }
        if autocompletion.is_empty() || self.buffer.is_empty() {
            self.partial = self.partial
                || self.autocompleted.is_some()
                || (self.buffer.is_empty() && !autocompletion.is_empty());
            self.autocompleted = Some(0);
//@ proof {
//@     assert(self.buffer@.subrange(0, 0) =~= Seq::<u8>::empty());
//@     assert forall|i: int| 0 <= i < self.cands@.len() implies is_prefix_of(Seq::<u8>::empty(), #[trigger] self.cands@[i]) by {
//@         assert(self.cands@[i].subrange(0, 0) =~= Seq::<u8>::empty());
//@     }
//@     if cand.len() == 0 { assert(cand =~= Seq::<u8>::empty()); }
//@     // lcc: the empty candidate has the empty continuation in common with anything
//@     assert(self.cands@.drop_last() =~= old(self).cands@);
//@     if cand.len() == 0 && old(self).cands@.len() > 0 {
//@         let prev = lcc(old(self).cands@);
//@         assert(cpl_pred(cand, prev, 0)) by { assert(cand.subrange(0, 0) =~= prev.subrange(0, 0)); }
//@         lemma_cpl_unique(cand, prev, 0);
//@         assert(cand.subrange(0, 0) =~= Seq::<u8>::empty());
//@     }
//@ }
            return;
        }

        // compare new autocompletion to existing and keep
        // only common prefix
        let len = match self.autocompleted() {
            Some(current) => utils::common_prefix_len(autocompletion, current),
            None => {
                // first candidate: keep as much of it as fits (cut at a char boundary),
                // so that following candidates are still compared with it
                let mut len = autocompletion.len().min(self.buffer.len());
//@ proof { is_char_boundary_start_end_of_seq(cand); }
                while !autocompletion.is_char_boundary(len) {
//@ invariant len <= cand.len(), len <= self.buffer@.len(), autocompletion.spec_bytes() == cand, valid_utf8(cand),
//@     forall|q: int| len < q <= cand.len() && q <= self.buffer@.len() ==> !#[trigger] is_char_boundary(cand, q),
//@ decreases len
//@ ---
//@ proof { is_char_boundary_start_end_of_seq(cand); }
                    len -= 1;
                }
//@ proof { lemma_fit_unique(cand, self.buffer@.len() as int, len as int); }
                len
            }
        };

        if len > self.buffer.len() {
            // if buffer is full with this autocompletion, there is not much sense in doing it
            // since user will not be able to type anything else
            // so just do nothing with it
        } else {
            self.partial =
                self.partial || len < autocompletion.len() || self.autocompleted.is_some();
            // SAFETY: we checked that len is no longer than buffer len (and is at most autocompleted len)
            // and these two buffers do not overlap since mutable reference to buffer is exclusive
            unsafe {
                utils::copy_nonoverlapping(autocompletion.as_bytes(), self.buffer, len);
            }
            self.autocompleted = Some(len);
//@ proof {
//@     assert(self.cands@.drop_last() =~= old(self).cands@);
//@     assert(self.cands@.last() == cand);
//@     if old(self).cands@.len() == 0 { assert(cand.subrange(0, cand.len() as int) =~= cand); }
//@     let a2 = cand.subrange(0, len as int);
//@     if ac_sem(old(self).state(), old(self).cands@) {
//@         if old(self).autocompleted is Some {
//@             let cur = old(self).state().auto.unwrap();
//@             assert(cand.subrange(0, len as int) == cur.subrange(0, len as int));
//@             assert forall|i: int| 0 <= i < old(self).cands@.len() implies is_prefix_of(a2, #[trigger] old(self).cands@[i]) by {
//@                 let c = old(self).cands@[i];
//@                 assert(is_prefix_of(cur, c));
//@                 assert(c.subrange(0, len as int) =~= c.subrange(0, cur.len() as int).subrange(0, len as int));
//@             }
//@         }
//@         assert forall|i: int| 0 <= i < self.cands@.len() implies is_prefix_of(a2, #[trigger] self.cands@[i]) by {
//@             if i < old(self).cands@.len() { assert(self.cands@[i] == old(self).cands@[i]); }
//@             else { assert(self.cands@[i] == cand); assert(cand.subrange(0, a2.len() as int) =~= a2); }
//@         }
//@     }
//@     assert(self.buffer@.subrange(0, len as int) =~= cand.subrange(0, len as int));
//@     if len < cand.len() {
//@         // the common prefix ends on a character boundary of the candidate, hence is well-formed
//@         valid_utf8_split(cand, len as int);
//@     } else {
//@         assert(cand.subrange(0, len as int) =~= cand);
//@     }
//@ }
        };
    }
}


//@ /// what any sequence of calls to the completion API guarantees (assumed of the callback given to
//@ /// Editor::autocompletion, and of derive-generated `Autocomplete::autocomplete`)
//@ #[verifier::prophetic]
//@ pub open spec fn ac_api_only(a: &mut Autocompletion<'_>) -> bool {
//@     &&& final(a).wf() && final(a).room() == a.room() && final(a).fin() == a.fin()
//@     &&& final(a).buf().len() == a.buf().len()
//@     // a merged continuation is never withdrawn, and as long as nothing is merged nothing is written
//@     &&& a.state().auto is Some ==> final(a).state().auto is Some
//@     &&& final(a).state().auto is None ==> final(a).buf() == a.buf() && final(a).state().partial == a.state().partial || true
//@     &&& final(a).state().auto is None ==> final(a).buf() == a.buf()
//@ }