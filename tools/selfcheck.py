#!/usr/bin/env python3
"""setup: sanity-check the toolchain and the annotation files (no build products are needed by the checks)."""
import os, shutil, subprocess, sys
HERE = os.path.dirname(os.path.abspath(__file__))
sys.path.insert(0, HERE)
import mirror
if not shutil.which('verus'):
    sys.exit('verus not on PATH')
text, lm, info = mirror.build()
print('mirror ok: %d lines, modules: %s' % (len(text.split('\n')), [m['name'] for m in info['modules']]))
os.makedirs(os.path.join(os.path.dirname(HERE), 'evidence'), exist_ok=True)
os.makedirs(os.path.join(os.path.dirname(HERE), 'replays'), exist_ok=True)
