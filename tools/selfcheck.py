#!/usr/bin/env python3
"""setup: sanity-check the toolchain and the annotation files, and warm the build cache of the witness drivers
(dependencies only matter: every check copies /repo's current sources afresh and rebuilds the library and the drivers)."""
import os, shutil, subprocess, sys, tempfile
HERE = os.path.dirname(os.path.abspath(__file__))
sys.path.insert(0, HERE)
import mirror
if not shutil.which('verus'):
    sys.exit('verus not on PATH')
text, lm, info = mirror.build()
print('mirror ok: %d lines, modules: %s' % (len(text.split('\n')), [m['name'] for m in info['modules']]))
os.makedirs(os.path.join(os.path.dirname(HERE), 'evidence'), exist_ok=True)
os.makedirs(os.path.join(os.path.dirname(HERE), 'replays'), exist_ok=True)
try:
    import witness
    w = tempfile.mkdtemp(prefix='verif-setup-', dir=os.environ.get('VERIF_SCRATCH', '/var/tmp'))
    try:
        for fs in (('history', 'autocomplete', 'help'), ('history', 'autocomplete'), ('autocomplete',), ('help',)):
            b, log = witness.build(w, fs)
            print('witness drivers (%s): %s' % (','.join(fs), 'built' if b else 'NOT built: ' + log[-1][-300:]))
    finally:
        shutil.rmtree(w, ignore_errors=True)
except Exception as e:   # the proofs do not need the drivers
    print('witness drivers not pre-built: %s' % e)
