#!/usr/bin/env python3
"""relevant_props.py <patch.diff> : the checks whose verified modules (props.json) or bounded stand-ins can be touched by
the files the patch changes (used by run_harmless.sh to skip checks that cannot see the change at all)"""
import json, os, re, sys
V = os.path.dirname(os.path.dirname(os.path.abspath(__file__)))
props = json.load(open(os.path.join(V, 'props.json')))
files = re.findall(r'^\+\+\+ b/(\S+)', open(sys.argv[1]).read(), re.M)
mods = set()
macro = False
for f in files:
    m = re.match(r'embedded-cli/src/(\w+)\.rs', f)
    if m:
        mods.add(m.group(1))
    elif f.startswith('embedded-cli-macros/'):
        macro = True
        if f.endswith('group/mod.rs'):
            mods |= {'tmpl_group_autocomplete', 'tmpl_group_help'}
        if f.endswith('command/help.rs'):
            mods.add('tmpl_command_help')
        if f.endswith('command/autocomplete.rs'):
            mods.add('tmpl_autocomplete')
res = []
for p, cfg in sorted(props.items()):
    if mods & set(cfg['modules']) or (macro and cfg.get('bounded')):
        res.append(p)
print(' '.join(res))
