"""Mirror extraction: real source text of /repo/embedded-cli/src/*.rs  ->  one Verus file.

Pipeline per source file (every run, from the current working tree):
  1. drop `#[cfg(test)]` items                                  (rule X1)
  2. apply the desugaring catalogue (tools/desugar.py)         (rules D1..)
  3. splice the `//@` annotation blocks of annot/<file>.rs      (insert-only; alignment by difflib when the
     source differs from the annotated baseline)
  4. hoist clause blocks (requires/ensures/invariant/decreases) in front of the `{` / `;` that ends the
     preceding header, name the return value `r`                (rule X3)
  5. resolve `#[cfg(feature = ..)]` for the requested feature set (rule X2)
  6. wrap in `pub mod <file> { use vstd::prelude::*; use crate::verif_specs::*; verus!{ .. } }`

The code text in the mirror always comes from /repo; annot/<file>.rs contributes only its `//@` lines (its
code lines are the alignment baseline and are compared with the current source).
"""
import difflib
import hashlib
import json
import os
import re
import sys

sys.path.insert(0, os.path.dirname(os.path.abspath(__file__)))
import rlex  # noqa: E402
import desugar  # noqa: E402
import template  # noqa: E402

VERIF = os.path.dirname(os.path.dirname(os.path.abspath(__file__)))
REPO_SRC = os.environ.get('VERIF_REPO_SRC', '/repo/embedded-cli/src')

# order matters only for readability; Verus resolves items crate-wide
MODULES = ['codes', 'buffer', 'utf8', 'utils', 'input', 'token', 'arguments', 'command', 'help',
           'autocomplete', 'tmpl_autocomplete', 'tmpl_group_autocomplete', 'tmpl_group_help', 'tmpl_command_help', 'editor', 'history', 'writer', 'service', 'builder', 'cli']
ALL_FEATURES = ('history', 'autocomplete', 'help')

CLAUSE_KW = ('requires', 'ensures', 'decreases', 'invariant', 'invariant_except_break', 'recommends',
             'returns', 'no_unwind', 'opens_invariants', 'for_iter', 'noname')


class Undecided(Exception):
    """extraction cannot be done soundly (lost anchor, unknown construct): exit 2, never an alarm"""
    pass


# ------------------------------------------------------------------------------------------------
# cfg handling
# ------------------------------------------------------------------------------------------------

def _eval_cfg(toks, features):
    """toks: code tokens (texts) of the predicate inside cfg( .. )"""
    pos = [0]

    def parse():
        t = toks[pos[0]]
        if t in ('not', 'all', 'any'):
            pos[0] += 1
            assert toks[pos[0]] == '('
            pos[0] += 1
            vals = []
            while toks[pos[0]] != ')':
                vals.append(parse())
                if toks[pos[0]] == ',':
                    pos[0] += 1
            pos[0] += 1
            if t == 'not':
                return not vals[0]
            if t == 'all':
                return all(vals)
            return any(vals)
        if t == 'feature':
            assert toks[pos[0] + 1] == '='
            name = toks[pos[0] + 2].strip('"')
            pos[0] += 3
            return name in features
        if t == 'test':
            pos[0] += 1
            return False
        if t == 'kani':
            pos[0] += 1
            return False
        raise Undecided('unknown cfg predicate %r' % t)

    return parse()


_BLOCK_STARTERS = {'fn', 'pub', 'unsafe', 'enum', 'struct', 'mod', 'impl', 'if', 'match', 'for', 'while',
                   'loop', 'trait', 'const', 'async', 'extern'}


def _find_cfg_attrs(toks, code):
    """yield (first_code_pos, last_code_pos, predicate_tokens) for each #[cfg(..)] attribute"""
    res = []
    k = 0
    while k < len(code) - 3:
        a, b, c, d = (toks[code[k + j]][1] for j in range(4))
        if a == '#' and b == '[' and c == 'cfg' and d == '(':
            # find matching ] of '['
            depth = 0
            j = k + 1
            while True:
                t = toks[code[j]][1]
                if t in '([{' and toks[code[j]][0] == 'p':
                    depth += 1
                elif t in ')]}' and toks[code[j]][0] == 'p':
                    depth -= 1
                    if depth == 0:
                        break
                j += 1
            pred = [toks[code[x]][1] for x in range(k + 4, j - 1)]
            res.append((k, j, pred))
            k = j + 1
        else:
            k += 1
    return res


def _item_end(toks, code, k):
    """code position of the last token of the item/statement/field starting at code position k"""
    # skip further attributes
    while toks[code[k]][1] == '#' and toks[code[k + 1]][1] == '[':
        depth = 0
        j = k + 1
        while True:
            t = toks[code[j]]
            if t[0] == 'p' and t[1] in '([{':
                depth += 1
            elif t[0] == 'p' and t[1] in ')]}':
                depth -= 1
                if depth == 0:
                    break
            j += 1
        k = j + 1
    first = toks[code[k]][1]
    blocky = first in _BLOCK_STARTERS
    depth = 0
    j = k
    cont = (',', '&', '|', '=', '==>', '.', '?', 'as', '!', '+', '-', '*', '<', '>', '=>', ')')
    while j < len(code):
        t = toks[code[j]]
        if t[0] == 'p':
            if t[1] in '([{':
                depth += 1
            elif t[1] in ')]}':
                depth -= 1
                if depth < 0:
                    return j - 1  # tail expression: ends before the enclosing close
                if depth == 0 and t[1] == '}' and blocky:
                    nxt = toks[code[j + 1]][1] if j + 1 < len(code) else ''
                    # `if .. {} else {}` chains; `{..}` inside a spliced contract clause (match / if expression)
                    if nxt == 'else' or nxt in cont:
                        j += 1
                        continue
                    return j
            elif depth == 0 and t[1] == ';':
                return j
            elif depth == 0 and t[1] == ',' and not blocky:
                return j
        j += 1
    raise Undecided('cfg item without end')


def apply_cfg(src, features, log, fname, drop_test_only=False):
    """Resolve cfg attributes.  drop_test_only: only remove #[cfg(test)] items, leave the rest."""
    while True:
        toks = rlex.lex(src)
        code = rlex.code_tokens(toks)
        attrs = _find_cfg_attrs(toks, code)
        todo = None
        for (k, j, pred) in attrs:
            is_test = pred == ['test']
            if drop_test_only and not is_test:
                continue
            todo = (k, j, pred)
            break
        if todo is None:
            return src
        k, j, pred = todo
        keep = _eval_cfg(pred, features)
        a0 = toks[code[k]][2]
        a1 = toks[code[j]][3]
        line = src.count('\n', 0, a0) + 1
        if keep:
            # remove the attribute only (and the rest of its line if it is alone on it)
            e = a1
            while e < len(src) and src[e] in ' \t':
                e += 1
            if e < len(src) and src[e] == '\n' and src[:a0].rstrip(' \t').endswith('\n'):
                s = len(src[:a0].rstrip(' \t'))
                src = src[:s] + src[e + 1:]
            else:
                src = src[:a0] + src[e:]
            log.append({'rule': 'X2', 'file': fname, 'line': line, 'what': 'cfg(%s) true: attribute removed' % ' '.join(pred)})
        else:
            end = _item_end(toks, code, j + 1)
            e = toks[code[end]][3]
            s = a0
            # remove leading indentation and the trailing newline when the removed text is whole lines
            ls = src.rfind('\n', 0, s) + 1
            if src[ls:s].strip() == '':
                s = ls
                ee = e
                while ee < len(src) and src[ee] in ' \t':
                    ee += 1
                if ee < len(src) and src[ee] == '\n':
                    e = ee + 1
            # doc comments (and attributes) that precede the cfg attribute belong to the removed item
            while s > 0:
                pl = src.rfind('\n', 0, s - 1) + 1
                prev = src[pl:s].strip()
                if prev.startswith('///') or (prev.startswith('#[') and prev.endswith(']')):
                    s = pl
                else:
                    break
            removed = src[s:e]
            src = src[:s] + src[e:]
            log.append({'rule': 'X1' if pred == ['test'] else 'X2', 'file': fname, 'line': line,
                        'what': 'cfg(%s) false: item removed (%d lines)' % (' '.join(pred), removed.count('\n') + 1)})


# ------------------------------------------------------------------------------------------------
# annotation splice
# ------------------------------------------------------------------------------------------------

def is_ann(line):
    return line.lstrip().startswith('//@')


def ann_text(line):
    s = line.lstrip()[3:]
    if s.startswith(' '):
        s = s[1:]
    return s.rstrip('\n')


def split_annot(annot_src):
    """-> (baseline code lines, blocks) ; blocks = list of (after_baseline_index, [ann lines], annot_lineno)"""
    base = []
    blocks = []
    cur = None
    for no, line in enumerate(annot_src.split('\n'), 1):
        if is_ann(line):
            if cur is None:
                cur = (len(base) - 1, [], no)
                blocks.append(cur)
            cur[1].append(ann_text(line))
        else:
            cur = None
            base.append(line)
    return base, blocks


def _norm(line):
    return ' '.join(line.split())


def splice(cur_src, annot_src, fname, log):
    """insert annotation blocks of annot_src into cur_src. returns list of (origin, text) lines
    origin = ('src', lineno) | ('ann', annot_lineno)"""
    base, blocks = split_annot(annot_src)
    cur = cur_src.split('\n')
    nb = [_norm(x) for x in base]
    nc = [_norm(x) for x in cur]
    identical = nb == nc
    after = {}  # cur index -> list of blocks inserted after that line (-1 = before first)
    # how the current text differs from the annotated baseline: lines of small in-place edits (same number of lines,
    # at most 3 in a row) vs lines in regions where statements were added, removed or moved (1-based current lines)
    changed = {'edit': set(), 'struct': set()}
    if identical:
        for (k, lines, no) in blocks:
            after.setdefault(k, []).append((lines, no))
    else:
        sm = difflib.SequenceMatcher(a=nb, b=nc, autojunk=False)
        mapping = {}
        for tag, i1, i2, j1, j2 in sm.get_opcodes():
            if tag != 'equal':
                blank_only = all(x == '' for x in nb[i1:i2]) and all(x == '' for x in nc[j1:j2])
                comment_only = all(x == '' or x.startswith('//') for x in nb[i1:i2]) and all(x == '' or x.startswith('//') for x in nc[j1:j2])
                if not (blank_only or comment_only):
                    small = tag == 'replace' and (i2 - i1) == (j2 - j1) and (j2 - j1) <= 3
                    if small:
                        # an in-place edit that adds or removes control flow (an early return, a `?`, a branch, a loop)
                        # changes which statements -- and which proof hints -- lie on which path: that is restructuring
                        def flow(ls):
                            t = ' '.join(ls)
                            return sorted(re.findall(r'\b(?:return|break|continue|if|else|match|while|for|loop)\b|\?;|\?\)', t))
                        if flow(nb[i1:i2]) != flow(nc[j1:j2]):
                            small = False
                    kind = 'edit' if small else 'struct'
                    lo, hi = (j1, j2) if j2 > j1 else (max(j1 - 1, 0), min(j1 + 1, len(nc)))
                    for j in range(lo, hi):
                        changed[kind].add(j + 1)
            if tag == 'equal':
                for d in range(i2 - i1):
                    mapping[i1 + d] = j1 + d
            elif tag == 'replace':
                for d in range(i2 - i1):
                    if (i2 - i1) == (j2 - j1):
                        mapping[i1 + d] = j1 + d
                    elif d == i2 - i1 - 1:
                        mapping[i1 + d] = j2 - 1
                    else:
                        mapping[i1 + d] = min(j1 + d, j2 - 1)
            elif tag == 'delete':
                for d in range(i2 - i1):
                    mapping[i1 + d] = j1 - 1
        mapping[-1] = -1
        for (k, lines, no) in blocks:
            after.setdefault(mapping[k], []).append((lines, no))
        log.append({'rule': 'ALIGN', 'file': fname,
                    'what': 'source differs from annotated baseline; %d annotation blocks re-anchored by line alignment' % len(blocks)})
    out = []
    for (lines, no) in after.get(-1, []):
        for d, l in enumerate(lines):
            out.append((('ann', no + d), l))
    for idx, line in enumerate(cur):
        out.append((('src', idx + 1), line))
        for (lines, no) in after.get(idx, []):
            for d, l in enumerate(lines):
                out.append((('ann', no + d), l))
    return out, identical, changed


def _first_word(s):
    m = re.match(r'\s*([A-Za-z_]+)', s)
    return m.group(1) if m else ''


def _block_first_word(lines, i):
    """first word of the first non-comment line of the annotation block starting at i"""
    j = i
    while j < len(lines) and lines[j][0][0] == 'ann':
        t = lines[j][1].strip()
        if t and not t.startswith('//'):
            return _first_word(t)
        j += 1
    return ''


LENIENT = [False]   # set by the runner on a retry: an in-body clause block that lost its loop / closure header is dropped


def hoist(lines, fname):
    """lines: list of (origin, text).  Clause blocks (annotation lines whose block starts with a clause keyword)
    are moved in front of the `{` or `;` that ends the preceding code line; fn return values get the name r."""
    out = []
    i = 0
    n = len(lines)
    while i < n:
        org, text = lines[i]
        if org[0] == 'ann' and (i == 0 or lines[i - 1][0][0] != 'ann') and _block_first_word(lines, i) in CLAUSE_KW:
            # collect the block
            j = i
            block = []
            while j < n and lines[j][0][0] == 'ann':
                if lines[j][1].strip() == '---':   # separator: what follows stays inside the body
                    j += 1
                    break
                if lines[j][1].strip().startswith(('proof {', 'proof{', 'let ghost ')):   # implicit separator
                    break
                block.append(lines[j])
                j += 1
            # find the header end in `out`
            k = len(out) - 1
            while k >= 0 and (out[k][1].strip() == '' or out[k][1].strip().startswith('//')):
                k -= 1
            if k < 0:
                raise Undecided('%s: clause block at annot line %d has no header' % (fname, org[1]))
            hdr = out[k][1].rstrip()
            # strip trailing line comment
            if not (hdr.endswith('{') or hdr.endswith(';')):
                if LENIENT[0]:
                    # orphaned in-body clause block (its loop / closure header is gone): dropped, see below
                    i = j
                    continue
                raise Undecided('%s: clause block at annot line %d: preceding line does not end a header: %r'
                                % (fname, org[1], hdr))
            term = hdr[-1]
            out[k] = (out[k][0], hdr[:-1].rstrip())
            # locate construct keyword by backward token scan over the text so far
            prefix = '\n'.join(t for (_, t) in out)
            try:
                kind, patched = _patch_header(prefix, block, fname, org[1])
            except Undecided:
                if not LENIENT[0]:
                    raise
                # the loop / closure this invariant or contract belonged to is gone (restructured body): the block is
                # dropped; the function is then verified without it (and treated as restructured by the runner)
                out[k] = (out[k][0], hdr)
                i = j
                continue
            newlines = patched.split('\n')
            # rebuild `out` texts keeping origins (header patch never changes the number of lines)
            assert len(newlines) == len(out)
            out = [(out[x][0], newlines[x]) for x in range(len(out))]
            for (o, t) in block:
                w = _first_word(t)
                if w in ('for_iter', 'noname'):
                    continue
                out.append((o, t))
            out.append((('gen', 0), term))
            i = j
            continue
        if org[0] == 'ann' and text.strip() == '---':
            i += 1
            continue
        out.append((org, text))
        i += 1
    return out


def _patch_header(prefix, block, fname, annline):
    toks = rlex.lex(prefix)
    code = rlex.code_tokens(toks)
    depth = 0
    k = len(code) - 1
    kind = None
    while k >= 0:
        t = toks[code[k]]
        if t[0] == 'p':
            if t[1] in ')]}':
                depth += 1
            elif t[1] in '([{':
                depth -= 1
                if depth < 0:
                    break
            elif t[1] == ';' and depth == 0:
                break
        elif t[0] == 'id' and depth == 0 and t[1] in ('fn', 'for', 'while', 'loop'):
            kind = t[1]
            break
        k -= 1
    if kind is None and toks[code[-1]][1] == '|':
        return 'closure', prefix   # closure contract: clauses go between the parameter list and the body
    if kind is None:
        raise Undecided('%s: clause block at annot line %d: no fn/for/while/loop header found' % (fname, annline))
    directives = {}
    for (_, t) in block:
        w = _first_word(t)
        if w == 'for_iter':
            directives['for_iter'] = t.split()[1]
        if w == 'noname':
            directives['noname'] = True
    edits = []  # (offset, insert_text)
    if kind == 'for' and 'for_iter' in directives:
        # insert `NAME:` after the `in` keyword at depth 0
        depth = 0
        j = k + 1
        while j < len(code):
            t = toks[code[j]]
            if t[0] == 'p' and t[1] in '([{':
                depth += 1
            elif t[0] == 'p' and t[1] in ')]}':
                depth -= 1
            elif t[0] == 'id' and t[1] == 'in' and depth == 0:
                edits.append((t[3], ' %s:' % directives['for_iter']))
                break
            j += 1
        else:
            raise Undecided('%s: for_iter: no `in`' % fname)
    if kind == 'fn' and 'noname' not in directives:
        # fn NAME [<generics>] ( params ) [-> TYPE] [where ..]
        j = k + 2
        if toks[code[j]][1] == '<':
            d = 0
            while True:
                t = toks[code[j]][1]
                if t == '<':
                    d += 1
                elif t == '>':
                    d -= 1
                    if d == 0:
                        break
                j += 1
            j += 1
        if toks[code[j]][1] != '(':
            raise Undecided('%s: cannot parse fn header near annot line %d' % (fname, annline))
        d = 0
        while True:
            t = toks[code[j]]
            if t[0] == 'p' and t[1] in '([{':
                d += 1
            elif t[0] == 'p' and t[1] in ')]}':
                d -= 1
                if d == 0:
                    break
            j += 1
        j += 1
        if j < len(code) and toks[code[j]][1] == '->':
            start = toks[code[j + 1]][2]
            # type runs to `where` at depth 0 or to the end of prefix
            d = 0
            e = None
            x = j + 1
            while x < len(code):
                t = toks[code[x]]
                if t[0] == 'p' and t[1] in '([{':
                    d += 1
                elif t[0] == 'p' and t[1] in ')]}':
                    d -= 1
                elif t[0] == 'id' and t[1] == 'where' and d == 0:
                    e = toks[code[x - 1]][3]
                    break
                x += 1
            if e is None:
                e = toks[code[-1]][3]
            edits.append((e, ')'))
            edits.append((start, '(r: '))
    for off, ins in sorted(edits, reverse=True):
        prefix = prefix[:off] + ins + prefix[off:]
    return kind, prefix


# ------------------------------------------------------------------------------------------------
# per-file mirror
# ------------------------------------------------------------------------------------------------

def sha(s):
    return hashlib.sha256(s.encode()).hexdigest()


def mirror_module(name, features, log, src_dir=None):
    src_dir = src_dir or REPO_SRC
    if name in template.TEMPLATES:
        # code emitted by a derive macro: taken from the quote! literal in the macro crate (tools/template.py)
        try:
            raw, src = template.extract(name, src_dir, log)
        except template.TemplateMismatch as e:
            raise Undecided(str(e))
    else:
        path = os.path.join(src_dir, name + '.rs')
        raw = open(path).read()
        src = apply_cfg(raw, features, log, name + '.rs', drop_test_only=True)
    src = desugar.apply(name, src, log)
    apath = os.path.join(VERIF, 'annot', name + '.rs')
    if not os.path.exists(apath):
        raise Undecided('no annotation file for module %s' % name)
    annot = open(apath).read()
    lines, identical, changed = splice(src, annot, name + '.rs', log)
    lines = hoist(lines, name + '.rs')
    # strip the `//@` marker is already done; now resolve cfg on the spliced text, keeping line origins:
    text = '\n'.join(t for (_, t) in lines)
    text2 = apply_cfg(text, features, log, name + '.rs')
    # recompute origins after cfg removal by aligning lines (removal only)
    origins = _realign([t for (_, t) in lines], [o for (o, _) in lines], text2.split('\n'))
    return {'name': name, 'raw_sha256': sha(raw), 'identical_to_baseline': identical,
            'changed': {k: sorted(v) for k, v in changed.items()},
            'lines': list(zip(origins, text2.split('\n')))}


def _realign(old_lines, old_orgs, new_lines):
    res = []
    i = 0
    for nl in new_lines:
        j = i
        while j < len(old_lines) and old_lines[j] != nl:
            j += 1
        if j < len(old_lines):
            res.append(old_orgs[j])
            i = j + 1
        else:
            res.append(('gen', 0))
    return res


FEATURE_FLAGS = '''
pub open spec fn feat_history() -> bool { %s }
pub open spec fn feat_autocomplete() -> bool { %s }
pub open spec fn feat_help() -> bool { %s }
'''


def module_deps(name, src_dir=None):
    """modules of the crate that module `name` mentions (source text and annotations)"""
    src_dir = src_dir or REPO_SRC
    texts = []
    if name in template.TEMPLATES:
        p = template.source_path(name, src_dir)
    else:
        p = os.path.join(src_dir, name + '.rs')
    for q in (p, os.path.join(VERIF, 'annot', name + '.rs')):
        if os.path.exists(q):
            texts.append(open(q).read())
    found = set()
    for t in texts:
        for m in re.finditer(r'\b(?:crate|_cli)::(\w+)', t):
            found.add(m.group(1))
        for m in re.finditer(r'use crate::\{(.*?)\};', t, re.S):
            depth = 0
            cur = ''
            for ch in m.group(1):
                if ch == '{':
                    depth += 1
                elif ch == '}':
                    depth -= 1
                elif depth == 0:
                    cur += ch
                    continue
                if depth == 1 and ch == '{':
                    cur += ' '
            for part in cur.split(','):
                w = re.match(r'\s*(\w+)', part)
                if w:
                    found.add(w.group(1))
    return set(x for x in found if x in MODULES and x != name)


def closure(modules, src_dir=None):
    """the given modules plus everything they (transitively) mention"""
    todo = list(modules)
    seen = []
    while todo:
        m = todo.pop()
        if m in seen or m not in MODULES:
            continue
        seen.append(m)
        todo += list(module_deps(m, src_dir))
    return [m for m in MODULES if m in seen]


def build(features=ALL_FEATURES, modules=None, src_dir=None):
    """-> (mirror_text, linemap, info)"""
    log = []
    modules = modules or [m for m in MODULES if os.path.exists(os.path.join(VERIF, 'annot', m + '.rs'))]
    if 'history' not in features:
        modules = [m for m in modules if m != 'history']
    if 'autocomplete' not in features:
        modules = [m for m in modules if not (m.startswith('tmpl_') and 'autocomplete' in m)]
    if 'help' not in features:
        modules = [m for m in modules if m not in ('tmpl_group_help', 'tmpl_command_help')]
    out = []
    linemap = []

    def emit(text, origin):
        for l in text.split('\n'):
            out.append(l)
            linemap.append(origin)

    emit('// GENERATED by tools/mirror.py from %s -- do not edit' % (src_dir or REPO_SRC), ('gen', 0))
    emit('#![allow(unused_imports, dead_code, unused_variables, unused_mut, unused_assignments, unused_parens, unused_braces, deprecated, non_snake_case)]', ('gen', 0))
    emit('use vstd::prelude::*;', ('gen', 0))
    # prelude specs
    emit('pub mod verif_specs {', ('gen', 0))
    emit('use vstd::prelude::*;', ('gen', 0))
    emit('verus! {', ('gen', 0))
    emit(FEATURE_FLAGS % tuple('true' if f in features else 'false' for f in ALL_FEATURES), ('gen', 0))
    emit('} // verus!', ('gen', 0))
    specdir = os.path.join(VERIF, 'specs')
    spec_files = sorted(f for f in os.listdir(specdir) if f.endswith('.rs'))
    for f in spec_files:
        txt = open(os.path.join(specdir, f)).read()
        txt = apply_cfg(txt, features, [], 'specs/' + f)
        for no, l in enumerate(txt.split('\n'), 1):
            out.append(l)
            linemap.append(('spec', f, no))
    emit('} // mod verif_specs', ('gen', 0))
    infos = []
    for m in modules:
        info = mirror_module(m, features, log, src_dir)
        infos.append({k: info[k] for k in ('name', 'raw_sha256', 'identical_to_baseline', 'changed')})
        emit('pub mod %s {' % m, ('gen', 0))
        emit('use vstd::prelude::*;', ('gen', 0))
        emit('#[allow(unused_imports)] use crate::verif_specs::*;', ('gen', 0))
        emit('verus! {', ('gen', 0))
        for (org, text) in info['lines']:
            out.append(text)
            if org[0] == 'src':
                linemap.append(('src', m + '.rs', org[1]))
            elif org[0] == 'ann':
                linemap.append(('ann', m + '.rs', org[1]))
            else:
                linemap.append(('gen', 0))
        emit('} // verus!', ('gen', 0))
        emit('} // mod %s' % m, ('gen', 0))
    emit('fn main() {}', ('gen', 0))
    return '\n'.join(out) + '\n', linemap, {'modules': infos, 'rewrites': log, 'features': list(features)}


if __name__ == '__main__':
    import argparse
    ap = argparse.ArgumentParser()
    ap.add_argument('--out', default='/tmp/mirror.rs')
    ap.add_argument('--features', default=','.join(ALL_FEATURES))
    ap.add_argument('--modules', default=None)
    ap.add_argument('--init-annot', default=None, help='write the desugared baseline of MODULE to annot/ (refuses to overwrite)')
    a = ap.parse_args()
    feats = tuple(f for f in a.features.split(',') if f)
    if a.init_annot:
        log = []
        raw = open(os.path.join(REPO_SRC, a.init_annot + '.rs')).read()
        src = apply_cfg(raw, feats, log, a.init_annot, drop_test_only=True)
        src = desugar.apply(a.init_annot, src, log)
        p = os.path.join(VERIF, 'annot', a.init_annot + '.rs')
        if os.path.exists(p):
            sys.exit('exists: ' + p)
        open(p, 'w').write(src)
        print('wrote', p)
        sys.exit(0)
    try:
        text, lm, info = build(feats, a.modules.split(',') if a.modules else None)
    except Undecided as e:
        print('UNDECIDED', e)
        sys.exit(2)
    open(a.out, 'w').write(text)
    json.dump({'linemap': lm, 'info': info}, open(a.out + '.map.json', 'w'))
    print('wrote', a.out, len(text.split('\n')), 'lines')
