"""Template extraction: the Rust text a derive macro emits, taken from the `quote! { .. }` literal in the macro crate.

A proc-macro cannot be put under contract as a program transformer, but where the emitted code is one fixed
`quote!` template whose only holes are (a) the name of the target type and (b) a list of string literals, the
template *is* real code that runs in every application, parameterised by that list.  It is extracted on every run
from /repo/embedded-cli-macros/src/<file>, the holes are replaced as listed below (rules T1..T4, logged), and the
result is verified like any other module -- for an uninterpreted list of names, i.e. for every declaration.

What the extraction drops / replaces (exhaustive):
  T1  `#named_lifetime`            -> nothing   (lifetime parameter list of the target type; the body does not use it)
  T2  `#ident`                     -> `DerivedCommand` (a unit struct declared in front of the template)
  T3  `_cli::`                     -> `crate::`  (the macro's alias of the embedded_cli crate)
  T4  `const NAMES: &[&str; #command_count] = &[#(#command_names),*];`
                                   -> `let NAMES: &[&str] = crate::verif_specs::derived_command_names();`
                                      an arbitrary slice whose contents are the uninterpreted `derived_names()`
Everything else (which names are put into NAMES: kebab-case conversion, `#[command(name = ..)]`, the order of
variants) is computed by the macro at expansion time and is NOT covered.
"""
import os
import re

import rlex


class TemplateMismatch(Exception):
    pass


TEMPLATES = {
    # mirror module name -> (file in the macro crate, cfg attribute line that selects the generator fn)
    'tmpl_autocomplete': ('command/autocomplete.rs', '#[cfg(feature = "autocomplete")]'),
    # code emitted by #[derive(CommandGroup)] for Autocomplete: one call per visible group member, in order.
    # The repetition `#(#groups)*` is instantiated for TWO members of arbitrary (generic) type -- rule T5; the emitted
    # code for N members is the same statement N times.
    'tmpl_group_autocomplete': ('group/mod.rs', '#[cfg(feature = "autocomplete")]\nfn derive_autocomplete'),
    # code emitted by #[derive(CommandGroup)] for Help (command_count, list_commands, command_help), two generic members
    'tmpl_group_help': ('group/mod.rs', '#[cfg(feature = "help")]\nfn derive_help'),
    # code emitted by #[derive(Command)] for Help: every statement-level quote! fragment of command/help.rs as a function
    # of its own (rule T6), and the impl literal instantiated for two commands without sub-command (rule T7)
    'tmpl_command_help': ('command/help.rs', '#[cfg(feature = "help")]\npub fn derive_help'),
}


def macros_dir(repo_src):
    # repo_src = <root>/embedded-cli/src
    return os.path.join(os.path.dirname(os.path.dirname(os.path.abspath(repo_src))), 'embedded-cli-macros', 'src')


def source_path(name, repo_src):
    return os.path.join(macros_dir(repo_src), TEMPLATES[name][0])


def _quote_bodies(raw, start, rel):
    """texts of the quote! { .. } literals that follow offset `start`, with the line number of each"""
    toks = rlex.lex(raw)
    pairs = rlex.match_brackets(toks)
    res = []
    pos = start
    while True:
        q = raw.find('quote! {', pos)
        if q < 0:
            break
        open_idx = None
        for i, t in enumerate(toks):
            if t[0] == 'p' and t[1] == '{' and t[2] == q + len('quote! '):
                open_idx = i
                break
        if open_idx is None:
            raise TemplateMismatch('%s: cannot locate the brace of quote!' % rel)
        close = pairs[open_idx]
        res.append((raw[toks[open_idx][3]:toks[close][2]], raw.count('\n', 0, toks[open_idx][3]) + 1, toks[close][3]))
        pos = toks[close][3]
    return res


def _dedent(body):
    lines = body.split('\n')
    while lines and lines[0].strip() == '':
        lines.pop(0)
    while lines and lines[-1].strip() == '':
        lines.pop()
    ind = min(len(l) - len(l.lstrip()) for l in lines if l.strip())
    return '\n'.join(l[ind:] if l.strip() else '' for l in lines) + '\n'


def extract_group(name, repo_src, log):
    rel, sel = TEMPLATES[name]
    path = source_path(name, repo_src)
    raw = open(path).read()
    k = raw.find(sel)
    if k < 0:
        raise TemplateMismatch('%s: selector not found' % rel)
    end = raw.find('\n}\n', k)
    bodies = [b for b in _quote_bodies(raw, k, rel) if b[2] <= end + 3]
    if len(bodies) != 2:
        raise TemplateMismatch('%s: expected the per-member and the impl quote! literals, found %d' % (rel, len(bodies)))
    inner, outer = _dedent(bodies[0][0]).strip(), _dedent(bodies[1][0])
    first_line = bodies[1][1]
    if inner.count('#ty') != 1 or outer.count('#(#groups)*') != 1:
        raise TemplateMismatch('%s: unexpected holes in the group template' % rel)
    ind = re.search(r'^([ \t]*)#\(#groups\)\*', outer, re.M).group(1)
    calls = '\n'.join(ind + inner.replace('#ty', g) for g in ('G1', 'G2'))
    text = re.sub(r'^[ \t]*#\(#groups\)\*', lambda m: calls, outer, flags=re.M)
    log.append({'rule': 'T5', 'file': 'embedded-cli-macros/src/' + rel, 'line': first_line,
                'what': 'repetition #(#groups)* instantiated for two members of generic type G1, G2 (per-member template: %s)' % inner[:120]})
    n = text.count('#named_lifetime')
    if n != 2 or text.count('#ident') != 1:
        raise TemplateMismatch('%s: unexpected impl header in the group template' % rel)
    text = re.sub(r'impl #named_lifetime ', 'impl<G1: crate::service::Autocomplete, G2: crate::service::Autocomplete> ', text)
    text = re.sub(r'#ident #named_lifetime', 'DerivedGroup<G1, G2>', text)
    log.append({'rule': 'T1/T2', 'file': 'embedded-cli-macros/src/' + rel, 'line': first_line,
                'what': 'target type named DerivedGroup<G1, G2>, generic over the two member types'})
    text = re.sub(r'\b_cli::', 'crate::', text)
    log.append({'rule': 'T3', 'file': 'embedded-cli-macros/src/' + rel, 'line': first_line, 'what': 'macro alias of the crate'})
    if '#' in re.sub(r'#\[[^\]]*\]', '', text):
        raise TemplateMismatch('%s: template has interpolations the extraction does not know' % rel)
    text = 'pub struct DerivedGroup<G1, G2> {\n    pub g1: G1,\n    pub g2: G2,\n}\n\n' + text
    return raw, text


def extract_group_help(name, repo_src, log):
    """code emitted by #[derive(CommandGroup)] for Help, for two members of generic type (rule T5): the generator builds
    the per-member pieces with `if i > 0 { quote!{rest} } else { quote!{first} }`, so member 1 takes `first`, member 2
    `rest`; list_commands has one piece per member"""
    rel, sel = TEMPLATES[name]
    path = source_path(name, repo_src)
    raw = open(path).read()
    k = raw.find(sel)
    if k < 0:
        raise TemplateMismatch('%s: selector not found' % rel)
    end = raw.find('\n}\n', k)
    bodies = [b for b in _quote_bodies(raw, k, rel) if b[2] <= end + 3]
    if len(bodies) != 6:
        raise TemplateMismatch('%s: expected 6 quote! literals in derive_help, found %d' % (rel, len(bodies)))
    cc_rest, cc_first, ch_rest, ch_first, lc, outer = [_dedent(b[0]) for b in bodies]
    first_line = bodies[5][1]
    for piece in (cc_rest, cc_first, ch_rest, ch_first, lc):
        if '#ty' not in piece:
            raise TemplateMismatch('%s: a per-member piece has no #ty hole' % rel)
    text = outer

    def fill(hole, parts):
        nonlocal text
        if text.count(hole) != 1:
            raise TemplateMismatch('%s: hole %s not found once' % (rel, hole))
        m = re.search(r'^([ \t]*)' + re.escape(hole), text, re.M)
        ind = m.group(1)
        body = '\n'.join(ind + l if l.strip() else l for part in parts for l in part.rstrip().split('\n'))
        text = text[:m.start()] + body + text[m.end():]

    fill('#(#command_counts)*', [cc_first.replace('#ty', 'G1'), cc_rest.replace('#ty', 'G2')])
    fill('#(#list_commands)*', [lc.replace('#ty', 'G1'), lc.replace('#ty', 'G2')])
    fill('#(#command_help)*', [ch_first.replace('#ty', 'G1'), ch_rest.replace('#ty', 'G2')])
    log.append({'rule': 'T5', 'file': 'embedded-cli-macros/src/' + rel, 'line': first_line,
                'what': 'repetitions #(#command_counts)* / #(#list_commands)* / #(#command_help)* instantiated for two members '
                        'of generic type G1, G2 (first-member and further-member pieces as the generator selects them)'})
    if text.count('#named_lifetime') != 2 or text.count('#ident') != 1:
        raise TemplateMismatch('%s: unexpected impl header in the group help template' % rel)
    text = re.sub(r'impl #named_lifetime ', 'impl<G1: crate::service::Help, G2: crate::service::Help> ', text)
    text = re.sub(r'#ident #named_lifetime', 'DerivedHelpGroup<G1, G2>', text)
    log.append({'rule': 'T1/T2', 'file': 'embedded-cli-macros/src/' + rel, 'line': first_line,
                'what': 'target type named DerivedHelpGroup<G1, G2>, generic over the two member types'})
    text = re.sub(r'\b_cli::', 'crate::', text)
    text = re.sub(r'\b_io::', 'crate::verif_specs::embedded_io::', text)
    log.append({'rule': 'T3', 'file': 'embedded-cli-macros/src/' + rel, 'line': first_line, 'what': 'macro aliases of the crate and of embedded_io'})
    if '#' in re.sub(r'#\[[^\]]*\]', '', text):
        raise TemplateMismatch('%s: template has interpolations the extraction does not know' % rel)
    text = 'pub struct DerivedHelpGroup<G1, G2> {\n    pub g1: G1,\n    pub g2: G2,\n}\n\n' + text
    return raw, text


FRAG_CONTRACT = '''    requires old(writer).wf(),
        // ASSUMED of the continuation that prints the parent's part of the usage line (the two that exist: `|_| Ok(())` in
        // Cli::process_help and the closure emitted for a sub-command, which adds two write_str calls): callable with any
        // well-formed Writer, uses it through its API only, reports a sink failure
        forall|w: &mut crate::writer::Writer<'_, W, E>| w.wf() ==> #[trigger] (*old(parent)).requires((w,)),
        forall|w: &mut crate::writer::Writer<'_, W, E>, res: Result<(), E>| w.wf() && #[trigger] (*old(parent)).ensures((w,), res) ==>
            crate::writer::writer_api_only(w) && (res is Ok ==> final(w).errs() == w.errs()),
    ensures crate::writer::writer_api_only(writer),   // [C14,C13]
        r is Ok ==> final(writer).errs() == old(writer).errs(),   // [C14]
        forall|w: &mut crate::writer::Writer<'_, W, E>| w.wf() ==> #[trigger] (*final(parent)).requires((w,)),
        forall|w: &mut crate::writer::Writer<'_, W, E>, res: Result<(), E>| w.wf() && #[trigger] (*final(parent)).ensures((w,), res) ==>
            crate::writer::writer_api_only(w) && (res is Ok ==> final(w).errs() == w.errs()),
'''

FRAG_GENERICS = ('<W: crate::verif_specs::embedded_io::Write<Error = E>, E: crate::verif_specs::embedded_io::Error, '
                 'F: FnMut(&mut crate::writer::Writer<\'_, W, E>) -> Result<(), E>, H: crate::service::Help>')


def extract_command_help(name, repo_src, log):
    """code emitted by #[derive(Command)] for Help.  The generator (command/help.rs) assembles the body of list_commands
    and of each match arm of command_help at expansion time from small quote! literals.  Rule T6: every literal that
    consists of statements only becomes a function `frag_NN` whose parameters are its interpolations -- `#x` used as a
    call argument: a `&str` (a `usize` as third argument of write_list_element); `#x` / `#(#x)*` standing alone as a
    statement: a call `hole(parent, writer)?;` of an abstract function with the contract every fragment is proved to
    have (so: any sequence of fragments already covered); `#ty`: a generic `H: Help`.  Rule T7: the impl literal is
    instantiated for two commands without sub-command (`#name => { #blocks },` twice, blocks = hole).
    NOT covered (listed in the log): the arm emitted for a command WITH a sub-command (option walker, nested parent
    closure, literals that are match arms or expressions), and everything computed at expansion time (which fragments
    are concatenated in which order, the strings)."""
    rel, sel = TEMPLATES[name]
    path = source_path(name, repo_src)
    raw = open(path).read()
    k = raw.find(sel)
    if k < 0:
        raise TemplateMismatch('%s: selector not found' % rel)
    lits = _quote_bodies(raw, k, rel)
    impl_lit = None
    simple_arm = None
    frags = []
    skipped = []
    for body, line, _end in lits:
        if not body.strip():
            continue
        text = _dedent(body)
        if 'impl #named_lifetime' in text:
            if 'fn command_help' in text:
                impl_lit = (text, line)
            continue
        stripped = text.strip()
        first = stripped.split('\n')[0]
        is_arm = ' => ' in first
        if is_arm:
            if re.match(r'^#name => \{\s*#blocks\s*\},$', stripped):
                simple_arm = (stripped, line)
            else:
                skipped.append((line, 'match arm'))
            continue
        # the pieces of the option walker of a command with a sub-command (identified by what they mention) are not
        # covered; EVERY other literal is taken as a statement fragment, whatever its statements look like
        if 'States::' in stripped or stripped == '#state,' or 'args.into_args()' in stripped:
            skipped.append((line, 'option walker / nested parent closure'))
            continue
        frags.append((stripped, line))
    if impl_lit is None or simple_arm is None or len(frags) < 5:
        raise TemplateMismatch('%s: impl literal / simple arm / statement fragments not found as expected' % rel)
    out = []
    out.append('/// stands for any sequence of fragments: has the contract every fragment below is proved to have')
    out.append('#[verifier::external_body]')
    out.append('pub fn hole' + FRAG_GENERICS.replace(', H: crate::service::Help', '') + '(')
    out.append('    parent: &mut F,')
    out.append("    writer: &mut crate::writer::Writer<'_, W, E>,")
    out.append(') -> (r: Result<(), E>)')
    out.append(FRAG_CONTRACT.rstrip('\n'))
    out.append('{')
    out.append('    unimplemented!()')
    out.append('}')
    out.append('')
    out.append('/// as `hole`, where no parent continuation is in scope (list_commands)')
    out.append('#[verifier::external_body]')
    out.append("pub fn hole_w<W: crate::verif_specs::embedded_io::Write<Error = E>, E: crate::verif_specs::embedded_io::Error>(")
    out.append("    writer: &mut crate::writer::Writer<'_, W, E>,")
    out.append(') -> (r: Result<(), E>)')
    out.append('    requires old(writer).wf(),')
    out.append('    ensures crate::writer::writer_api_only(writer),')
    out.append('        r is Ok ==> final(writer).errs() == old(writer).errs(),')
    out.append('{')
    out.append('    unimplemented!()')
    out.append('}')
    out.append('')
    for idx, (text, line) in enumerate(frags, 1):
        body_lines = []
        params = []
        for l in text.split('\n'):
            t = l.strip()
            if not t:
                continue
            if re.match(r'^#\w+$', t) or re.match(r'^#\(#\w+\)\*$', t):
                body_lines.append('    hole(parent, writer)?;   // ' + t)
                continue
            t = t.replace('<#ty as _cli::service::Help>', '<H as _cli::service::Help>')
            m3 = re.search(r'write_list_element\([^,]+,[^,]+,\s*#(\w+)\)', t)
            usize_holes = [m3.group(1)] if m3 else []
            for h in re.findall(r'#(\w+)', t):
                ty = 'usize' if h in usize_holes else '&str'
                if ('h_' + h, ty) not in params:
                    params.append(('h_' + h, ty))
            t = re.sub(r'#(\w+)', r'h_\1', t)
            body_lines.append('    ' + t)
        out.append('// statement fragment of embedded-cli-macros/src/%s:%d' % (rel, line))
        out.append('pub fn frag_%02d%s(' % (idx, FRAG_GENERICS))
        out.append('    parent: &mut F,')
        out.append("    writer: &mut crate::writer::Writer<'_, W, E>,")
        for pn, pt in params:
            out.append('    %s: %s,' % (pn, pt))
        out.append(') -> (r: Result<(), E>)')
        out.append(FRAG_CONTRACT.rstrip('\n'))
        out.append('{')
        out += body_lines
        out.append('    Ok(())')
        out.append('}')
        out.append('')
        log.append({'rule': 'T6', 'file': 'embedded-cli-macros/src/' + rel, 'line': line,
                    'what': 'statement fragment -> fn frag_%02d(%s)' % (idx, ', '.join(p for p, _ in params))})
    for line, why in skipped:
        log.append({'rule': 'T6-skip', 'file': 'embedded-cli-macros/src/' + rel, 'line': line,
                    'what': 'quote! literal NOT covered (%s): part of the arm emitted for a command with a sub-command' % why})
    # T7: the impl literal for two commands without sub-command
    text, line = impl_lit
    arm = simple_arm[0]

    def inst(nm):
        return arm.replace('#name', '"%s"' % nm).replace('#blocks', 'hole(parent, writer)?;')
    ind = re.search(r'^([ \t]*)#\(#commands_help\)\*', text, re.M).group(1)
    arms = '\n'.join(ind + l for nm in ('cmd-one', 'cmd-two') for l in inst(nm).split('\n'))
    if text.count('#(#commands_help)*') != 1 or text.count('#list_commands') != 1 or text.count('#command_count') != 1:
        raise TemplateMismatch('%s: unexpected holes in the impl literal' % rel)
    text = re.sub(r'^[ \t]*#\(#commands_help\)\*', lambda m: arms, text, flags=re.M)
    text = text.replace('#list_commands', 'hole_w(writer)?;')
    text = text.replace('{ #command_count }', '{ crate::verif_specs::derived_command_count() }')
    if text.count('#named_lifetime') != 2 or text.count('#ident') != 1:
        raise TemplateMismatch('%s: unexpected impl header' % rel)
    text = text.replace('impl #named_lifetime ', 'impl ').replace('#ident #named_lifetime', 'DerivedHelpCommand')
    log.append({'rule': 'T7', 'file': 'embedded-cli-macros/src/' + rel, 'line': line,
                'what': 'impl literal instantiated for two commands without sub-command ("cmd-one", "cmd-two"); #blocks / '
                        '#list_commands -> hole; #command_count -> arbitrary usize'})
    res = 'pub struct DerivedHelpCommand;\n\n' + '\n'.join(out) + '\n' + text
    res = re.sub(r'\b_cli::', 'crate::', res)
    res = re.sub(r'\b_io::', 'crate::verif_specs::embedded_io::', res)
    if '#' in re.sub(r'#\[[^\]]*\]', '', re.sub(r'//[^\n]*', '', res)):
        raise TemplateMismatch('%s: template has interpolations the extraction does not know' % rel)
    return raw, res


def extract(name, repo_src, log):
    if name == 'tmpl_command_help':
        return extract_command_help(name, repo_src, log)
    if name == 'tmpl_group_autocomplete':
        return extract_group(name, repo_src, log)
    if name == 'tmpl_group_help':
        return extract_group_help(name, repo_src, log)
    rel, sel = TEMPLATES[name]
    path = source_path(name, repo_src)
    raw = open(path).read()
    k = raw.find(sel)
    if k < 0:
        raise TemplateMismatch('%s: selector %r not found' % (rel, sel))
    q = raw.find('quote! {', k)
    if q < 0:
        raise TemplateMismatch('%s: no quote! literal after the selector' % rel)
    toks = rlex.lex(raw)
    pairs = rlex.match_brackets(toks)
    open_idx = None
    for i, t in enumerate(toks):
        if t[0] == 'p' and t[1] == '{' and t[2] == q + len('quote! '):
            open_idx = i
            break
    if open_idx is None:
        raise TemplateMismatch('%s: cannot locate the brace of quote!' % rel)
    close = pairs[open_idx]
    body = raw[toks[open_idx][3]:toks[close][2]]
    first_line = raw.count('\n', 0, toks[open_idx][3]) + 1
    # dedent
    lines = body.split('\n')
    while lines and lines[0].strip() == '':
        lines.pop(0)
        first_line += 1
    while lines and lines[-1].strip() == '':
        lines.pop()
    ind = min(len(l) - len(l.lstrip()) for l in lines if l.strip())
    text = '\n'.join(l[ind:] if l.strip() else '' for l in lines) + '\n'

    def sub(rid, pat, repl, count, what):
        nonlocal text
        n = len(re.findall(pat, text))
        if n != count:
            raise TemplateMismatch('%s: template rule %s expected %d site(s), found %d' % (rel, rid, count, n))
        text = re.sub(pat, repl, text)
        log.append({'rule': rid, 'file': 'embedded-cli-macros/src/' + rel, 'line': first_line, 'what': what})

    sub('T4', r'const NAMES: &\[&str; #command_count\] = &\[#\(#command_names\),\*\];',
        'let NAMES: &[&str] = crate::verif_specs::derived_command_names();', 1,
        'the list of command-name literals becomes an arbitrary slice (uninterpreted derived_names())')
    sub('T1', r' ?#named_lifetime', '', 2, 'lifetime parameter list of the target type dropped')
    sub('T2', r'#ident', 'DerivedCommand', 1, 'target type named DerivedCommand')
    sub('T3', r'\b_cli::', 'crate::', text.count('_cli::'), 'macro alias of the crate')
    if '#' in re.sub(r'#\[[^\]]*\]', '', text):
        raise TemplateMismatch('%s: template has interpolations the extraction does not know' % rel)
    text = 'pub struct DerivedCommand;\n\n' + text
    return raw, text
