#!/bin/bash
# run_harmless.sh : behaviour-preserving refactorings (harmless/<name>/patch.diff, written by sub-agents): no check may
# report a violation on them (OK or UNDECIDED only).  Results -> harmless/RESULTS.md
cd /verif
OUT=harmless/RESULTS.md
echo "| refactoring | check | verdict | detail |" > $OUT.tmp
echo "|---|---|---|---|" >> $OUT.tmp
for d in harmless/*/; do
  n=$(basename $d)
  [ -f $d/patch.diff ] || continue
  if [ -n "$SEEDS" ]; then case " $SEEDS " in *" $n "*) ;; *) continue;; esac; fi
  D=$(mktemp -d /var/tmp/tp-XXXXXX)
  mkdir -p $D/embedded-cli $D/embedded-cli-macros
  cp -r /repo/embedded-cli/src $D/embedded-cli/src; cp -r /repo/embedded-cli-macros/src $D/embedded-cli-macros/src
  if ! (cd $D && patch -s -p1 < /verif/$d/patch.diff); then echo "| $n | - | patch does not apply | |" >> $OUT.tmp; rm -rf $D; continue; fi
  # only the checks whose verified modules / bounded stand-ins can see the files the patch touches (ALL=1: every check)
  REL=$(python3 tools/relevant_props.py $d/patch.diff)
  [ -n "$ALL" ] && REL="C01 C02 C03 C04 C05 C06 C07 C08 C10 C11 C12 C13 C14 C15 C16 C17"
  # C16 (four feature sets, by far the longest check) only for the refactorings named in C16_FOR, when that is set
  if [ -n "$C16_FOR" ]; then case " $C16_FOR " in *" $n "*) ;; *) REL=$(echo $REL | sed 's/ *C16//');; esac; fi
  for q in $REL; do
    VERIF_REPO_SRC=$D/embedded-cli/src bin/check $q 2>/dev/null > $D/out-$q.txt &
    while [ $(jobs -r | wc -l) -ge 6 ]; do sleep 2; done
  done
  wait
  for q in $REL; do
    v=$(grep -E "^(OK|VIOLATION|UNDECIDED)" $D/out-$q.txt | head -1 | cut -c1-9)
    det=$(grep -E "^(failed obligation|supporting obligation|undischarged|  )" $D/out-$q.txt | head -1 | cut -c1-200 | tr '|' '/')
    echo "| $n | $q | $v | $det |" >> $OUT.tmp
  done
  rm -rf $D
done
mv $OUT.tmp $OUT
grep -c VIOLATION $OUT
