#!/usr/bin/env python3
"""Automatic mutation sweep (development-time self-test of the checks; not registered in MANIFEST.json).

Generates first-order mutants of /repo/embedded-cli/src (relational / logical operators, +-1 constants, removed
statements), keeps those that still COMPILE AND PASS THE EXISTING TEST SUITE (the kind of change the checks exist
for), and runs on each the checks of the properties the mutated function carries (units.json).  A mutant none of
those checks reports is a SURVIVOR: it is either equivalent with respect to the properties or a gap.
Results -> mutants/AUTO.md.   usage: automut.py [N=120] [seed=1] [workers=4]"""
import concurrent.futures
import json
import os
import random
import re
import shutil
import subprocess
import sys
import tempfile
import threading

V = os.path.dirname(os.path.dirname(os.path.abspath(__file__)))
SRC = '/repo/embedded-cli/src'
FILES = ['arguments.rs', 'autocomplete.rs', 'cli.rs', 'command.rs', 'editor.rs', 'help.rs', 'history.rs', 'input.rs', 'token.rs',
         'utf8.rs', 'utils.rs', 'writer.rs']

OPS = [
    (r' < ', ' <= '), (r' <= ', ' < '), (r' > ', ' >= '), (r' >= ', ' > '), (r' == ', ' != '), (r' != ', ' == '),
    (r' && ', ' || '), (r' \|\| ', ' && '), (r' \+ 1\b', ' + 0'), (r' - 1\b', ' - 0'), (r' \+ 1\b', ' + 2'),
    (r'\b0x([0-9A-F])0\b', r'0x\g<1>1'), (r'\.\.=', '..'), (r'\bSome\(([a-z_]+)\)$', 'None'),
]


def units():
    return json.load(open(os.path.join(V, 'units.json')))


def gen():
    muts = []
    for f in FILES:
        lines = open(os.path.join(SRC, f)).read().split('\n')
        in_tests = False
        fn = None
        for i, l in enumerate(lines):
            if l.startswith('#[cfg(test)]'):
                in_tests = True
            if in_tests:
                continue
            m = re.match(r'\s*(?:pub(?:\([a-z]+\))? )?(?:const )?(?:unsafe )?fn (\w+)', l)
            if m:
                fn = m.group(1)
            s = l.strip()
            if not fn or not s or s.startswith('//') or s.startswith('#[') or 'debug_assert' in s or s.startswith('fn ') or s.startswith('pub fn '):
                continue
            code = l.split('//')[0]
            for pat, rep in OPS:
                for mm in re.finditer(pat, code):
                    new = code[:mm.start()] + mm.expand(rep) + code[mm.end():] + l[len(code):]
                    if new != l:
                        muts.append((f, i, fn, l, new, 'op %s -> %s' % (pat.strip(), rep.strip())))
            # statement removal: a call statement on its own line
            if re.match(r'^(self|editor|cli|writer|autocompletion|handle)\.[\w\.]+\(.*\)\??;$', s) or re.match(r'^[\w\.]+ [\+\-]?= .*;$', s):
                muts.append((f, i, fn, l, l[:len(l) - len(l.lstrip())] + '// removed', 'statement removed'))
    return muts


LOCK = threading.Lock()
WORKERS = {}


def worker_dir():
    t = threading.get_ident()
    with LOCK:
        if t not in WORKERS:
            d = tempfile.mkdtemp(prefix='amut-', dir='/var/tmp')
            shutil.rmtree(d)
            subprocess.run(['git', '-C', '/repo', 'worktree', 'add', '-q', '--detach', d, 'HEAD'], check=True)
            WORKERS[t] = d
    return WORKERS[t]


def props_of(f, fn, U):
    mod = f[:-3]
    ps = []
    for name, u in U.items():
        if name.startswith(mod + '::') and name.split('::')[-1] == fn:
            for p in u.get('direct', []) + u.get('props', []):
                if p not in ps:
                    ps.append(p)
    return ps


def run(m, U):
    f, i, fn, old, new, what = m
    d = worker_dir()
    p = os.path.join(d, 'embedded-cli', 'src', f)
    subprocess.run(['git', '-C', d, 'checkout', '-q', '--', '.'])
    lines = open(p).read().split('\n')
    assert lines[i] == old
    lines[i] = new
    open(p, 'w').write('\n'.join(lines))
    env = dict(os.environ, CARGO_NET_OFFLINE='true', CARGO_TARGET_DIR=d + '/target')
    # own process group, killed as a whole on timeout: a mutant can make a test binary loop for ever
    import signal
    pr = subprocess.Popen(['cargo', 'test', '--workspace', '--offline', '-q'], cwd=d, env=env, stdout=subprocess.PIPE,
                          stderr=subprocess.STDOUT, text=True, start_new_session=True)
    try:
        pr.communicate(timeout=600)
        suite = pr.returncode
    except subprocess.TimeoutExpired:
        os.killpg(pr.pid, signal.SIGKILL)
        pr.communicate()
        suite = 'timeout'
    res = {'file': f, 'line': i + 1, 'fn': fn, 'what': what, 'new': new.strip(), 'suite': suite, 'checks': {}}
    if suite != 0:
        return res
    props = [x for x in props_of(f, fn, U) if x != 'C16'][:6]
    res['props'] = props
    env2 = dict(os.environ, VERIF_REPO_SRC=os.path.join(d, 'embedded-cli', 'src'))
    for pid in props:
        o = subprocess.run([os.path.join(V, 'bin', 'check'), pid], env=env2, stdout=subprocess.PIPE, stderr=subprocess.DEVNULL, text=True).stdout
        res['checks'][pid] = 'VIOLATION' if 'VIOLATION property=' in o else ('UNDECIDED' if 'UNDECIDED' in o else 'OK')
        if res['checks'][pid] == 'VIOLATION':
            break   # reported: enough
    return res


def main():
    n = int(sys.argv[1]) if len(sys.argv) > 1 else 120
    seed = int(sys.argv[2]) if len(sys.argv) > 2 else 1
    workers = int(sys.argv[3]) if len(sys.argv) > 3 else 4
    U = units()
    muts = gen()
    random.Random(seed).shuffle(muts)
    muts = muts[:n]
    print(len(muts), 'mutants')
    out = []
    try:
        with concurrent.futures.ThreadPoolExecutor(max_workers=workers) as ex:
            for r in ex.map(lambda m: run(m, U), muts):
                out.append(r)
                print(r['file'], r['line'], r['fn'], '|', r['what'], '| suite', r['suite'], '|', r['checks'], flush=True)
    finally:
        for d in WORKERS.values():
            subprocess.run(['git', '-C', '/repo', 'worktree', 'remove', '--force', d])
    live = [r for r in out if r['suite'] == 0]
    caught = [r for r in live if 'VIOLATION' in r['checks'].values()]
    os.makedirs(os.path.join(V, 'mutants'), exist_ok=True)
    with open(os.path.join(V, 'mutants', 'AUTO-%d.md' % seed), 'w') as fh:
        fh.write('%d mutants generated (seed %d); %d compile and pass the existing suite; %d of those are reported as a violation by a '
                 'check of a property the mutated function carries.\n\n' % (len(out), seed, len(live), len(caught)))
        fh.write('| file:line | function | mutation | new text | checks |\n|---|---|---|---|---|\n')
        for r in live:
            fh.write('| %s:%d | %s | %s | `%s` | %s |\n' % (r['file'], r['line'], r['fn'], r['what'].replace('|', '\\|'), r['new'].replace('|', '\\|')[:90],
                                                            ', '.join('%s %s' % kv for kv in r['checks'].items()) or 'function carries no property'))
    print(len(out), 'mutants;', len(live), 'pass the suite;', len(caught), 'reported')


if __name__ == '__main__':
    main()
