#!/usr/bin/env python3
"""Mechanical mutation sweep (development-time self-test): small in-place edits, each known to break the named
property, applied to a scratch copy of the sources; the check of that property must report a violation.
usage: mutants.py [name-filter]   -> mutants/RESULTS.md"""
import os, shutil, subprocess, sys, tempfile, concurrent.futures
V = os.path.dirname(os.path.dirname(os.path.abspath(__file__)))
M = [
 # (name, file, old, new, property)
 ('text-ich-inverted', 'cli.rs', 'if is_inside {', 'if !is_inside {', 'C06'),
 ('backspace-no-dch', 'cli.rs', '                    self.writer.flush_bytes(codes::DELETE_CHAR)?;\n', '', 'C06'),
 ('enter-no-clear', 'cli.rs', '                editor.clear();\n                result?;', '                result?;', 'C01'),
 # equivalent at the API boundary: every successful path through process_input flushes afterwards (prompt via
 # flush_str, process_error via flush_str(CRLF)); expected verdict: not VIOLATION
 ('command-no-flush', 'cli.rs', '            self.writer.write_str(codes::CRLF)?;\n        }\n        self.writer.flush()?;\n\n        match res {', '            self.writer.write_str(codes::CRLF)?;\n        }\n\n        match res {', 'C15'),
 ('write-error-swallowed', 'cli.rs', 'Err(ProcessError::WriteError(err)) => Err(err),', 'Err(ProcessError::WriteError(_err)) => Ok(()),', 'C14'),
 ('prompt-not-flushed', 'cli.rs', '        cli.writer.flush_str(cli.prompt)?;\n\n        Ok(cli)\n    }\n\n    /// Each call', '        cli.writer.write_str(cli.prompt)?;\n\n        Ok(cli)\n    }\n\n    /// Each call', 'C15'),
 ('up-is-newer', 'cli.rs', 'self.navigate_history(editor, NavigateHistory::Older)?', 'self.navigate_history(editor, NavigateHistory::Newer)?', 'C10'),
 ('help-word-help2', 'cli.rs', '"help".starts_with(name)', '"helq".starts_with(name)', 'C11'),
 ('insert-fits-off-by-one', 'editor.rs', 'if remaining < text.len() {', 'if remaining <= text.len() {', 'C05'),
 ('remove-one-byte', 'editor.rs', 'self.valid -= next - cursor;', 'self.valid -= 1;', 'C05'),
 ('move-right-le', 'editor.rs', 'if self.cursor < self.len() {', 'if self.cursor <= self.len() {', 'C05'),
 ('ac-space-always', 'editor.rs', 'if !autocompletion.is_partial() && self.valid < self.buffer.len() {', 'if self.valid < self.buffer.len() {', 'C11'),
 ('hist-empty-recorded', 'history.rs', ' || text.is_empty() {', ' {', 'C10'),
 ('hist-fit-off-by-one', 'history.rs', 'text.len() + 1 > self.buffer.len()', 'text.len() > self.buffer.len()', 'C10'),
 ('tok-no-escape', 'token.rs', "} else if byte == b'\\\\' {", "} else if byte == 0xFF {", 'C07'),
 ('tok-normal-space', 'token.rs', "                    if byte == b' ' || byte == 0 {\n                        mode = Mode::Space;", "                    if byte == 0 {\n                        mode = Mode::Space;", 'C07'),
 ('args-ddash-not-sticky', 'arguments.rs', '                    self.values_only = true;\n', '', 'C08'),
 ('csi-final-range', 'input.rs', '(0x40..=0x7E).contains(&byte)', '(0x41..=0x7E).contains(&byte)', 'C04'),
 ('csi-c-d-swapped', 'input.rs', "b'C' => ControlInput::Forward,\n                b'D' => ControlInput::Back,", "b'C' => ControlInput::Back,\n                b'D' => ControlInput::Forward,", 'C04'),
 ('tab-is-ignored', 'input.rs', 'codes::TABULATION => ControlInput::Tab,', 'codes::TABULATION => return None,', 'C04'),
 ('utf8-e0-range', 'utf8.rs', '(first == 0xE0 && byte < 0xA0)', '(first == 0xE0 && byte < 0x90)', 'C02'),
 ('dirty-and', 'writer.rs', "            && (self.last_bytes[0] != codes::CARRIAGE_RETURN\n                || self.last_bytes[1] != codes::LINE_FEED)", "            && (self.last_bytes[0] != codes::CARRIAGE_RETURN\n                && self.last_bytes[1] != codes::LINE_FEED)", 'C13'),
 ('lf-not-converted', 'writer.rs', '                self.writer.write_str(line)?;\n                self.writer.write_str(codes::CRLF)?;', '                self.writer.write_str(line)?;\n                self.writer.write_str("\\n")?;', 'C13'),
 ('encode-mask', 'utils.rs', '0b0011_1111) | 0b1000_0000;', '0b0001_1111) | 0b1000_0000;', 'C17'),
 ('pop-front-mask', 'utils.rs', '(first & 0x1F) as u32', '(first & 0x0F) as u32', 'C17'),
 ('merge-partial-forgot', 'autocomplete.rs', 'self.partial || len < autocompletion.len() || self.autocompleted.is_some();', 'self.partial || self.autocompleted.is_some();', 'C11'),
 ('help-short-H', 'help.rs', "Arg::ShortOption('h')", "Arg::ShortOption('H')", 'C12'),
 ('help-first-arg-option', 'help.rs', 'None => Some(HelpRequest::All),', 'None => None,', 'C12'),
]

def run(m):
    name, f, old, new, prop = m
    d = tempfile.mkdtemp(prefix='mut-', dir='/var/tmp')
    try:
        os.makedirs(d + '/embedded-cli'); os.makedirs(d + '/embedded-cli-macros')
        shutil.copytree('/repo/embedded-cli/src', d + '/embedded-cli/src')
        shutil.copytree('/repo/embedded-cli-macros/src', d + '/embedded-cli-macros/src')
        p = d + '/embedded-cli/src/' + f
        s = open(p).read()
        if s.count(old) != 1:
            return name, prop, 'SITE-MISMATCH(%d)' % s.count(old), ''
        open(p, 'w').write(s.replace(old, new))
        env = dict(os.environ, VERIF_REPO_SRC=d + '/embedded-cli/src')
        out = subprocess.run([V + '/bin/check', prop], env=env, stdout=subprocess.PIPE, stderr=subprocess.DEVNULL, text=True).stdout
        verdict = 'VIOLATION' if 'VIOLATION property=' in out else ('UNDECIDED' if 'UNDECIDED' in out else 'OK')
        wit = 'no witness' if 'no-failing-input-found' in out else ('witness' if verdict == 'VIOLATION' else '')
        first = [l for l in out.split('\n') if l.startswith(('failed obligation', 'supporting', 'undischarged', 'obligation failed', 'counterexample'))][:1]
        return name, prop, verdict + (' (' + wit + ')' if wit else ''), (first[0] if first else out.strip().split('\n')[-1])[:160]
    finally:
        shutil.rmtree(d, ignore_errors=True)

if __name__ == '__main__':
    flt = sys.argv[1] if len(sys.argv) > 1 else ''
    todo = [m for m in M if flt in m[0]]
    with concurrent.futures.ThreadPoolExecutor(max_workers=5) as ex:
        res = list(ex.map(run, todo))
    os.makedirs(V + '/mutants', exist_ok=True)
    with open(V + '/mutants/RESULTS.md', 'w') as fh:
        fh.write('| mutant | property | verdict | first line |\n|---|---|---|---|\n')
        for r in res:
            fh.write('| %s | %s | %s | %s |\n' % (r[0], r[1], r[2], r[3].replace('|', '/')))
            print(r[0], r[1], r[2], '|', r[3][:100])
    print(len([r for r in res if r[2].startswith('VIOLATION')]), 'of', len(res), 'reported')
