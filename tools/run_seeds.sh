#!/bin/bash
# run_seeds.sh [all]  : run every seeded change against the check of the property it breaks (or against all checks)
# uses a scratch copy of the sources (VERIF_REPO_SRC), never touches /repo; results -> seeded/RESULTS.md
cd /verif
OUT=seeded/RESULTS.md
[ "$1" = all ] && OUT=seeded/RESULTS_ALL.md
echo "| seeded change | breaks | check | verdict | decided by | failing obligation / counterexample |" > $OUT.tmp
echo "|---|---|---|---|---|---|" >> $OUT.tmp
ROWS=$(mktemp -d /var/tmp/rows-XXXXXX)
one_seed() {
  d=$1; n=$(basename $d)
  p=$(python3 -c "import json;print(json.load(open('$d/meta.json'))['breaks_property'])")
  props=$p
  [ "$MODE" = all ] && props="C01 C02 C03 C04 C05 C06 C07 C08 C10 C11 C12 C13 C14 C15 C16 C17"
  D=$(mktemp -d /var/tmp/tp-XXXXXX)
  mkdir -p $D/embedded-cli $D/embedded-cli-macros
  cp -r /repo/embedded-cli/src $D/embedded-cli/src; cp -r /repo/embedded-cli-macros/src $D/embedded-cli-macros/src
  if ! (cd $D && patch -s -p1 < /verif/$d/patch.diff); then echo "| $n | $p | - | patch does not apply | | |" > $ROWS/$n.row; rm -rf $D; return; fi
  for q in $props; do
    grep -q "\"$q\"" MANIFEST.json || continue
    VERIF_REPO_SRC=$D/embedded-cli/src bin/check $q 2>/dev/null > $D/out-$q.txt
  done
  for q in $props; do
    [ -f $D/out-$q.txt ] || continue
    python3 - "$n" "$p" "$q" $D/out-$q.txt >> $ROWS/$n.row <<'PY'
import sys,re
n,p,q,f=sys.argv[1:5]
t=open(f).read()
verdict='VIOLATION' if 'VIOLATION property=' in t else ('UNDECIDED' if 'UNDECIDED' in t else ('OK' if t.startswith('OK') or '\nOK ' in t else '?'))
fo=[l[len('failed obligation: '):] for l in t.split('\n') if l.startswith('failed obligation: ')]
cex=[l for l in t.split('\n') if l.startswith('counterexample on the real code:')]
so=[l[len('supporting obligation failed: '):] for l in t.split('\n') if l.startswith('supporting obligation failed: ')]
if fo and fo[0].startswith('bounded stand-in'):
    by='bounded stand-in on real code (proof unaffected)'; what=(cex[0][len('counterexample on the real code: '):] if cex else fo[0])[:170]
elif fo and fo[0].startswith('kani harness'):
    by='Kani harness'; what=fo[0][:170]
elif [l for l in t.split('\n') if l.startswith('obligation failed in a restructured function: ')]:
    ro=[l[len('obligation failed in a restructured function: '):] for l in t.split('\n') if l.startswith('obligation failed in a restructured function: ')]
    by='clause fails in a restructured function' + (' + witness on real code' if cex else ', no concrete violation found'); what=ro[0][:170]
elif so:
    by='supporting contract fails' + (' + witness on real code' if cex else ', no concrete violation found'); what=so[0][:170]
elif fo:
    by='verifier (clause fails)'; what=fo[0][:170]
    if 'no-failing-input-found' in t: by+=', no witness found'
    else: by+=' + witness on real code'
elif cex:
    by='witness on real code (verifier undecided)'; what=cex[0][len('counterexample on the real code: '):][:170]
else:
    by=''; what=(t.strip().split('\n') or [''])[-1][:170]
print('| %s | %s | %s | %s | %s | %s |' % (n,p,q,verdict,by,what.replace('|','\\|')))
PY
  done
  rm -rf $D
}
MODE=$1
PAR=${PAR:-5}
for d in seeded/*/; do
  n=$(basename $d)
  [ -f $d/patch.diff ] || continue
  if [ -n "$SEEDS" ]; then case " $SEEDS " in *" $n "*) ;; *) continue;; esac; fi
  one_seed $d &
  while [ $(jobs -r | wc -l) -ge $PAR ]; do sleep 2; done
done
wait
for d in seeded/*/; do n=$(basename $d); [ -f $ROWS/$n.row ] && cat $ROWS/$n.row >> $OUT.tmp; done
rm -rf $ROWS
mv $OUT.tmp $OUT
cat $OUT
