#!/bin/bash
# run_seeds.sh [all]  : run every seeded change against the check of the property it breaks (or against all checks)
# uses a scratch copy of the sources (VERIF_REPO_SRC), never touches /repo; results -> seeded/RESULTS.md
cd /verif
OUT=seeded/RESULTS.md
echo "| seeded change | breaks | check | result |" > $OUT.tmp
echo "|---|---|---|---|" >> $OUT.tmp
for d in seeded/*/; do
  n=$(basename $d)
  [ -f $d/patch.diff ] || continue
  p=$(python3 -c "import json;print(json.load(open('$d/meta.json'))['breaks_property'])")
  props=$p
  [ "$1" = all ] && props="C01 C02 C03 C04 C05 C06 C07 C08 C10 C11 C12 C13 C14 C15 C16 C17"
  D=$(mktemp -d /var/tmp/tp-XXXXXX)
  mkdir -p $D/embedded-cli $D/embedded-cli-macros
  cp -r /repo/embedded-cli/src $D/embedded-cli/src; cp -r /repo/embedded-cli-macros/src $D/embedded-cli-macros/src
  if ! (cd $D && patch -s -p1 < /verif/$d/patch.diff); then echo "| $n | $p | - | patch does not apply |" >> $OUT.tmp; rm -rf $D; continue; fi
  for q in $props; do
    grep -q "\"$q\"" MANIFEST.json || continue
    r=$(VERIF_REPO_SRC=$D/embedded-cli/src bin/check $q 2>/dev/null | grep -E "^(OK|VIOLATION|UNDECIDED|failed obligation)" | head -3 | tr '\n' ' ' | cut -c1-300)
    echo "| $n | $p | $q | $r |" >> $OUT.tmp
  done
  rm -rf $D
done
mv $OUT.tmp $OUT
cat $OUT
