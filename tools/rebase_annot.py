#!/usr/bin/env python3
"""Re-anchor the //@ annotation blocks of annot/<module>.rs onto the current (desugared) source of /repo,
i.e. refresh the alignment baseline after the source or a desugaring rule changed.  usage: rebase_annot.py <module>"""
import os, sys
HERE = os.path.dirname(os.path.abspath(__file__))
sys.path.insert(0, HERE)
import mirror, desugar
m = sys.argv[1]
log = []
raw = open(os.path.join(mirror.REPO_SRC, m + '.rs')).read()
src = mirror.apply_cfg(raw, mirror.ALL_FEATURES, log, m, drop_test_only=True)
src = desugar.apply(m, src, log)
p = os.path.join(mirror.VERIF, 'annot', m + '.rs')
old = open(p).read()
lines, ident, _chg = mirror.splice(src, old, m + '.rs', log)
out = [('//@ ' + t if t.strip() else '//@') if org[0] == 'ann' else t for (org, t) in lines]
open(p, 'w').write('\n'.join(out))
print('identical baseline' if ident else 're-anchored', m)
