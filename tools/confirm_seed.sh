#!/bin/bash
# confirm_seed.sh <name> <worktree-with-seed-dir>  : independent confirmation of a seeded change in a fresh worktree
# 1. existing suite passes with the change  2. demo fails with the change  3. demo passes without the change
set -u
NAME=$1; SRC=$2; FLAGS=${3:-}
W=/tmp/confirm-$NAME
rm -rf $W; git -C /repo worktree add -q --detach $W HEAD || exit 9
cd $W
OUT=/verif/seeded/$NAME; mkdir -p $OUT
cp $SRC/seed/patch.diff $OUT/patch.diff
cp $SRC/seed/seed_demo.rs $OUT/seed_demo.rs 2>/dev/null || cp $SRC/embedded-cli/tests/seed_demo.rs $OUT/seed_demo.rs
cp $SRC/seed/notes.md $OUT/notes.md 2>/dev/null
git apply $OUT/patch.diff || { echo "patch does not apply"; exit 8; }
cargo test --workspace --offline > $OUT/suite_with_change.log 2>&1; S1=$?
cp $OUT/seed_demo.rs embedded-cli/tests/seed_demo.rs
cargo test -p embedded-cli --offline --test seed_demo $FLAGS > $OUT/demo_with_change.log 2>&1; S2=$?
git checkout -q -- embedded-cli embedded-cli-macros 2>/dev/null
cargo test -p embedded-cli --offline --test seed_demo $FLAGS > $OUT/demo_without_change.log 2>&1; S3=$?
echo "{\"demo_flags\": \"$FLAGS\", \"suite_with_change_exit\": $S1, \"demo_with_change_exit\": $S2, \"demo_without_change_exit\": $S3}" > $OUT/confirm.json
cat $OUT/confirm.json
cd /; git -C /repo worktree remove --force $W
