"""Kani harnesses on the real functions (thorough tier of C02 / C03 / C17).
Builds a scratch workspace (visibility-only copy of /repo's embedded-cli, like tools/witness.py) with the harness
crate /verif/kani and runs `cargo kani --harness <h>`.  -> list of {harness, kind: full-domain|bounded, status, time_s}"""
import os
import re
import shutil
import subprocess
import time

import witness

HERE = os.path.dirname(os.path.abspath(__file__))
VERIF = os.path.dirname(HERE)

HARNESSES = {
    # harness -> (kind, properties, bound note)
    'encode_utf8_matches_core': ('full-domain', ['C17', 'C02'], 'every char; unwinding assertions on'),
    'push_byte_sound': ('full-domain', ['C02'], 'every sequence of 4 bytes from the idle state; unwinding assertions on'),
    'push_byte_complete': ('full-domain', ['C17', 'C04'], 'every char >= U+0020, fed octet by octet'),
    'char_pop_front_one_scalar': ('full-domain', ['C17', 'C08'], 'every char followed by one ASCII byte'),
    'copy_nonoverlapping_bounded': ('bounded', ['C03'], 'slice lengths <= 8'),
    'split_at_mut_bounded': ('bounded', ['C03'], 'slice lengths <= 8'),
}


def run(work, pid, timeout=900):
    ws = os.path.join(work, 'kws')
    if os.path.exists(ws):
        shutil.rmtree(ws)
    os.makedirs(ws)
    root = witness.repo_root()
    os.makedirs(os.path.join(ws, 'embedded-cli'))
    shutil.copytree(os.path.join(root, 'embedded-cli', 'src'), os.path.join(ws, 'embedded-cli', 'src'))
    cargo = os.path.join(root, 'embedded-cli', 'Cargo.toml')
    if not os.path.exists(cargo):
        cargo = '/repo/embedded-cli/Cargo.toml'
    shutil.copy(cargo, os.path.join(ws, 'embedded-cli', 'Cargo.toml'))
    os.makedirs(os.path.join(ws, 'embedded-cli-macros'))
    shutil.copytree(os.path.join(root, 'embedded-cli-macros', 'src'), os.path.join(ws, 'embedded-cli-macros', 'src'))
    shutil.copy('/repo/embedded-cli-macros/Cargo.toml', os.path.join(ws, 'embedded-cli-macros', 'Cargo.toml'))
    lib = os.path.join(ws, 'embedded-cli', 'src', 'lib.rs')
    s = open(lib).read()
    s, n = re.subn(r'(?m)^mod (\w+);', r'pub mod \1;', s)
    open(lib, 'w').write(s)
    shutil.copytree(os.path.join(VERIF, 'kani', 'src'), os.path.join(ws, 'kani', 'src'))
    shutil.copy(os.path.join(VERIF, 'kani', 'Cargo.toml.in'), os.path.join(ws, 'kani', 'Cargo.toml'))
    open(os.path.join(ws, 'Cargo.toml'), 'w').write(
        '[workspace]\nresolver = "2"\nmembers = ["embedded-cli", "embedded-cli-macros", "kani"]\n\n'
        '[workspace.package]\nlicense = "MIT OR Apache-2.0"\nedition = "2021"\n')
    shutil.copy('/repo/Cargo.lock', os.path.join(ws, 'Cargo.lock'))
    env = dict(os.environ, CARGO_NET_OFFLINE='true', CARGO_TARGET_DIR=os.path.join(work, 'ktarget'))
    rows = []
    for h, (kind, props, note) in HARNESSES.items():
        if pid not in props:
            continue
        t0 = time.time()
        try:
            p = subprocess.run(['cargo', 'kani', '-p', 'verif-kani', '--harness', h], cwd=ws, env=env,
                               stdout=subprocess.PIPE, stderr=subprocess.STDOUT, text=True, timeout=timeout)
            out = p.stdout
            if 'VERIFICATION:- SUCCESSFUL' in out:
                status = 'successful'
            elif 'VERIFICATION:- FAILED' in out:
                status = 'failed'
            else:
                status = 'error'
        except subprocess.TimeoutExpired:
            out = ''
            status = 'timeout'
        failed = [l.strip() for l in out.split('\n') if l.startswith('Failed Checks:')][:5]
        playback = ''
        if status == 'failed':
            # counterexample: the concrete values Kani found, as the unit test it generates
            try:
                p2 = subprocess.run(['cargo', 'kani', '-p', 'verif-kani', '--harness', h, '-Z', 'concrete-playback',
                                     '--concrete-playback=print'], cwd=ws, env=env, stdout=subprocess.PIPE,
                                    stderr=subprocess.STDOUT, text=True, timeout=timeout)
                m = re.search(r'Concrete playback unit test.*?```(.*?)```', p2.stdout, re.S)
                playback = (m.group(1) if m else '')[:3000]
            except subprocess.TimeoutExpired:
                pass
        rows.append({'harness': h, 'kind': kind, 'bound': note, 'status': status, 'time_s': round(time.time() - t0, 1),
                     'failed_checks': failed, 'concrete_playback': playback, 'tail': out[-600:] if status in ('error',) else ''})
    return rows


if __name__ == '__main__':
    import sys, tempfile, json
    w = tempfile.mkdtemp(dir='/var/tmp')
    try:
        for pid in sys.argv[1:]:
            print(json.dumps(run(w, pid), indent=1))
    finally:
        shutil.rmtree(w, ignore_errors=True)
