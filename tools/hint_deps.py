#!/usr/bin/env python3
"""Development-time analysis: which properties depend on which proof hint.

A failed hint (`assert` / lemma call inside a spliced `proof { .. }` block) is assumed by Verus for the rest of the
function, so it can mask a violation of every obligation that needed it.  This tool blanks one proof block at a time,
re-verifies the containing function and records which tagged clauses / safety obligations stop verifying.  The result
(hint_tags.json, committed) tells the checks which properties a failing hint must be attributed to.

usage: hint_deps.py [--jobs N] [--module M]
"""
import argparse
import concurrent.futures
import hashlib
import json
import os
import re
import shutil
import subprocess
import sys
import tempfile

HERE = os.path.dirname(os.path.abspath(__file__))
sys.path.insert(0, HERE)
import mirror  # noqa: E402
import check  # noqa: E402

VERIF = os.path.dirname(HERE)


def find_blocks(lines, linemap):
    """proof blocks that come from annotations: list of (start, end) 1-based inclusive mirror line numbers"""
    blocks = []
    i = 0
    n = min(len(lines), len(linemap))
    while i < n:
        org = linemap[i]
        if org[0] == 'ann' and re.match(r'\s*proof\s*\{', lines[i]):
            depth = 0
            j = i
            while j < n:
                c = lines[j]
                c = c[:c.index('//')] if '//' in c else c
                depth += c.count('{') - c.count('}')
                if depth <= 0:
                    break
                j += 1
            blocks.append((i + 1, j + 1))
            i = j + 1
        else:
            i += 1
    return blocks


def block_key(lines, linemap, b):
    txt = '\n'.join(re.sub(r'//.*$', '', lines[k - 1]).strip() for k in range(b[0], b[1] + 1))
    return linemap[b[0] - 1][1] + ':' + hashlib.sha1(txt.encode()).hexdigest()[:12]


ASSIGN = re.compile(r'^\s*[a-z_][a-z_0-9]*\s*=[^=]')


def blank(lines, b):
    out = list(lines)
    for k in range(b[0], b[1] + 1):
        l = out[k - 1]
        code = l[:l.index('//')] if '//' in l else l
        if k == b[0]:
            # keep `proof {` (and a closing brace if the block is on one line)
            if b[0] == b[1]:
                inner = code[code.index('{') + 1:code.rindex('}')]
                keep = ' '.join(s + ';' for s in inner.split(';') if ASSIGN.match(s))
                out[k - 1] = 'proof { %s }' % keep
            else:
                out[k - 1] = 'proof {'
        elif k == b[1]:
            out[k - 1] = '}'
        elif ASSIGN.match(code) and code.rstrip().endswith(';'):
            pass  # ghost variable update: kept so that later code still type-checks and means the same
        else:
            out[k - 1] = ''
    return out


def run_one(args):
    (idx, b, key, fn, module, text_lines, linemap, units, work) = args
    var = blank(text_lines, b)
    d = os.path.join(work, 'v%d' % idx)
    os.makedirs(d)
    p = os.path.join(d, 'mirror.rs')
    text = '\n'.join(var)
    open(p, 'w').write(text)
    short = fn.split('::', 1)[1] if '::' in fn else fn
    cmd = ['verus', p, '--triggers-mode', 'silent', '--multiple-errors', '24', '--output-json', '--time',
           '--verify-only-module', module, '--verify-function', '*' + short, '-V', 'spinoff-all', '--', '--error-format=json']
    r = subprocess.run(cmd, stdout=subprocess.PIPE, stderr=subprocess.PIPE, text=True, cwd=d)
    if 'matches' in r.stderr and 'verify-function' in r.stderr or 'could not find' in r.stderr.lower():
        cmd = [c for c in cmd if c not in ('--verify-function', '*' + short)]
        r = subprocess.run(cmd, stdout=subprocess.PIPE, stderr=subprocess.PIPE, text=True, cwd=d)
    diags = []
    for l in r.stderr.split('\n'):
        l = l.strip()
        if l.startswith('{'):
            try:
                diags.append(json.loads(l))
            except Exception:
                pass
    try:
        vj = json.loads(r.stdout)
    except Exception:
        vj = None
    res = {'diags': diags, 'json': vj, 'rc': r.returncode, 'stderr': r.stderr}
    fails, undec = check.classify(res, text, linemap, units)
    shutil.rmtree(d, ignore_errors=True)
    return (key, fn, fails, undec)


def main():
    ap = argparse.ArgumentParser()
    ap.add_argument('--jobs', type=int, default=14)
    ap.add_argument('--module', default=None)
    a = ap.parse_args()
    text, linemap, info = mirror.build()
    lines = text.split('\n')
    units = json.load(open(os.path.join(VERIF, 'units.json')))
    spans = check.function_spans(text)
    blocks = find_blocks(lines, linemap)
    work = tempfile.mkdtemp(prefix='hintdeps-', dir='/var/tmp')
    jobs = []
    keyof = {}
    for idx, b in enumerate(blocks):
        fn = None
        for f in spans:
            if f['start'] <= b[0] <= f['end'] and f['has_body']:
                if fn is None or (f['end'] - f['start']) < (fn['end'] - fn['start']):
                    fn = f
        if fn is None or fn['name'].startswith('verif_specs'):
            continue
        if a.module and fn['module'] != a.module:
            continue
        key = block_key(lines, linemap, b)
        for k in range(b[0], b[1] + 1):
            keyof[k] = key
        jobs.append((idx, b, key, fn['name'], fn['module'], lines, linemap, units, work))
    print('blocks to analyse:', len(jobs), file=sys.stderr)
    results = {}
    with concurrent.futures.ThreadPoolExecutor(max_workers=a.jobs) as ex:
        for (key, fn, fails, undec) in ex.map(run_one, jobs):
            deps = set()
            hint_deps = set()
            timed_out = any('resource limit' in u for u in undec)
            for f in fails:
                ln = f['line']
                # failure located in another hint block -> propagate later; else take its tags
                if ln in keyof and keyof[ln] != key and f['message'] in ('assertion failed', 'precondition not satisfied') and f['kind'] != 'safety':
                    hint_deps.add(keyof[ln])
                    continue
                for t in f['tags']:
                    deps.add(t)
            if timed_out:
                deps |= set(units.get(fn, {}).get('props', []))
            results[key] = {'function': fn, 'deps': sorted(deps), 'hint_deps': sorted(hint_deps), 'timed_out': timed_out}
    shutil.rmtree(work, ignore_errors=True)
    # propagate through hint -> hint dependencies
    changed = True
    while changed:
        changed = False
        for k, v in results.items():
            for h in v['hint_deps']:
                if h in results:
                    new = set(v['deps']) | set(results[h]['deps'])
                    if new != set(v['deps']):
                        v['deps'] = sorted(new)
                        changed = True
    out_path = os.path.join(VERIF, 'hint_tags.json')
    old = {}
    if a.module and os.path.exists(out_path):
        old = json.load(open(out_path))
    old.update(results)
    json.dump(old, open(out_path, 'w'), indent=1, sort_keys=True)
    print('wrote', out_path, len(old), 'blocks;', sum(1 for v in results.values() if v['deps']), 'with dependencies', file=sys.stderr)


if __name__ == '__main__':
    main()
