#!/usr/bin/env python3
"""Regenerate the table of DESIGN.md section 9 from seeded/RESULTS.md and the meta.json files."""
import json, os, re
V = os.path.dirname(os.path.dirname(os.path.abspath(__file__)))
rows = []
for l in open(os.path.join(V, 'seeded', 'RESULTS.md')).read().split('\n')[2:]:
    c = [x.strip() for x in l.split('|')]
    if len(c) < 7 or not c[1]:
        continue
    name, breaks, check, verdict, by, what = c[1:7]
    meta = json.load(open(os.path.join(V, 'seeded', name, 'meta.json')))
    needs = meta['needs_to_manifest']
    rows.append('| %s | %s | %s | %s — %s |' % (name, breaks, needs[:210], verdict, by))
table = '| seeded change | breaks | what it changes / needs in order to manifest | check of that property |\n|---|---|---|---|\n' + '\n'.join(rows)
n = len(rows)
caught = len([r for r in rows if '| VIOLATION' in r or 'VIOLATION —' in r])
summary = '\n\n%d of %d seeded changes are reported as a violation by the check of the property they break (run of `tools/run_seeds.sh`; the full output incl. the failing obligation or counterexample is `seeded/RESULTS.md`).' % (caught, n)
p = os.path.join(V, 'DESIGN.md')
s = open(p).read()
if 'SEEDTABLE' in s:
    s = s.replace('SEEDTABLE', '<!-- seedtable -->\n' + table + summary + '\n<!-- /seedtable -->')
else:
    s = re.sub(r'<!-- seedtable -->.*?<!-- /seedtable -->', lambda m: '<!-- seedtable -->\n' + table + summary + '\n<!-- /seedtable -->', s, flags=re.S)
open(p, 'w').write(s)
print(caught, 'of', n)
