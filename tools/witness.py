"""Witness search and replay on the REAL code.

Builds, in a scratch workspace, a copy of /repo's embedded-cli + embedded-cli-macros (current working tree) whose only
modification is visibility (private modules / pub(crate) items / the Cli.editor field made public -- list below,
applied mechanically, each logged) together with the driver crate /verif/witness, and runs the drivers that
exercise the functions whose obligations failed.  A found input is a counterexample replayed on the real code;
finding none decides nothing."""
import json
import os
import re
import shutil
import subprocess

HERE = os.path.dirname(os.path.abspath(__file__))
VERIF = os.path.dirname(HERE)

# failing function (module prefix) -> drivers
DRIVERS = {
    'utf8': ['decoder', 'scalars', 'utils'], 'input': ['decoder', 'scalars'], 'utils': ['utils', 'scalars', 'autocomplete', 'editor'],
    'token': ['token'], 'arguments': ['token', 'scalars', 'derive_parse'], 'command': ['token', 'cli'], 'help': ['token', 'scalars', 'cli'],
    'editor': ['editor', 'cli'], 'history': ['history', 'cli'], 'autocomplete': ['autocomplete', 'cli'],
    'tmpl_autocomplete': ['cli', 'derive_hidden'], 'tmpl_group_autocomplete': ['derive_hidden', 'cli'], 'tmpl_group_help': ['derive_fail', 'derive_help', 'cli'], 'tmpl_command_help': ['derive_fail', 'derive_help'], 'writer': ['writer', 'cli'], 'cli': ['cli', 'derive_fail', 'derive_help'], 'builder': ['cli'], 'service': ['cli'],
    'buffer': ['editor', 'history'], 'codes': ['cli'],
}
# drivers that accept a property filter
FILTERED = {'cli'}

VIS_EDITS = [
    # (file, regex, replacement, minimum count)
    ('src/lib.rs', r'(?m)^mod (\w+);', r'pub mod \1;', 5),
    ('src/cli.rs', r'(?m)^    editor: Option<Editor<CommandBuffer>>,', r'    pub editor: Option<Editor<CommandBuffer>>,', 1),
]


def repo_root():
    src = os.environ.get('VERIF_REPO_SRC', '/repo/embedded-cli/src')
    return os.path.dirname(os.path.dirname(os.path.abspath(src)))


def build(work, features=('history', 'autocomplete', 'help')):
    """-> (binary path or None, log)"""
    root = repo_root()
    ws = os.path.join(work, 'ws')
    if os.path.exists(ws):
        shutil.rmtree(ws)
    os.makedirs(ws)
    log = []
    for c in ('embedded-cli', 'embedded-cli-macros'):
        os.makedirs(os.path.join(ws, c))
        shutil.copytree(os.path.join(root, c, 'src'), os.path.join(ws, c, 'src'))
        cargo = os.path.join(root, c, 'Cargo.toml')
        if not os.path.exists(cargo):
            cargo = os.path.join('/repo', c, 'Cargo.toml')   # scratch copies of the sources carry no manifests
        shutil.copy(cargo, os.path.join(ws, c, 'Cargo.toml'))
    for f in os.listdir(os.path.join(ws, 'embedded-cli', 'src')):
        if not f.endswith('.rs'):
            continue
        p = os.path.join(ws, 'embedded-cli', 'src', f)
        s = open(p).read()
        s2 = s.replace('pub(crate) ', 'pub ')
        if s2 != s:
            log.append('%s: pub(crate) -> pub' % f)
            open(p, 'w').write(s2)
    for (f, pat, rep, mincount) in VIS_EDITS:
        p = os.path.join(ws, 'embedded-cli', f)
        s = open(p).read()
        s2, n = re.subn(pat, rep, s)
        if n < mincount:
            return None, log + ['visibility edit %s on %s matched %d < %d times' % (pat, f, n, mincount)]
        open(p, 'w').write(s2)
        log.append('%s: %s (%d)' % (f, rep, n))
    shutil.copytree(os.path.join(VERIF, 'witness', 'src'), os.path.join(ws, 'witness', 'src'))
    shutil.copy(os.path.join(VERIF, 'witness', 'Cargo.toml.in'), os.path.join(ws, 'witness', 'Cargo.toml'))
    open(os.path.join(ws, 'Cargo.toml'), 'w').write(
        '[workspace]\nresolver = "2"\nmembers = ["embedded-cli", "embedded-cli-macros", "witness"]\n\n'
        '[workspace.package]\nlicense = "MIT OR Apache-2.0"\nedition = "2021"\n\n'
        # optimised, but with the run-time checks of a debug build: arithmetic overflow and the preconditions of the
        # unchecked operations of core (unwrap_unchecked, get_unchecked, from_u32_unchecked ..) abort instead of being UB
        '[profile.release]\ndebug-assertions = true\noverflow-checks = true\n')
    shutil.copy('/repo/Cargo.lock', os.path.join(ws, 'Cargo.lock'))
    # build cache: /verif/witness/target for /repo itself (recreated when absent); self-test runs against a scratch copy
    # of the sources (VERIF_REPO_SRC) get a private target directory so that concurrent runs cannot swap binaries
    target = os.path.join(VERIF, 'witness', 'target') if 'VERIF_REPO_SRC' not in os.environ else os.path.join(work, 'target')
    env = dict(os.environ, CARGO_NET_OFFLINE='true', CARGO_TARGET_DIR=target)
    cmd = ['cargo', 'build', '--release', '--offline', '-q', '-p', 'verif-witness', '--no-default-features',
           '--features', ','.join(features) if features else '']
    if not features:
        cmd = cmd[:-2]
    p = subprocess.run(cmd, cwd=ws, env=env, stdout=subprocess.PIPE, stderr=subprocess.STDOUT, text=True, timeout=1800)
    log.append(' '.join(cmd))
    if p.returncode != 0:
        return None, log + ['witness build failed:\n' + p.stdout[-3000:]]
    # the binary is copied next to the workspace: a later build in the shared cache cannot replace it under our feet
    private = os.path.join(work, 'witness-%s' % ('-'.join(features) or 'none'))
    shutil.copy(os.path.join(target, 'release', 'witness'), private)
    return private, log


def run_driver(binary, driver, seed, iters=20000, timeout=600):
    try:
        # the output may quote ill-formed text the library produced: never let decoding fail
        p = subprocess.run([binary, driver, str(seed or 1), str(iters)], stdout=subprocess.PIPE, stderr=subprocess.PIPE,
                           text=True, errors='backslashreplace', timeout=timeout)
    except subprocess.TimeoutExpired:
        return {'driver': driver, 'found': False, 'note': 'timeout'}
    line = (p.stdout.strip().split('\n') or [''])[-1]
    try:
        res = json.loads(line)
        if res.get('expected') == 'no panic' and 'location' in res:
            # printed by the panic hook of the driver: a panic / abort located in the library's own source is a witness
            # (C03); a panic of the driver decides nothing
            if not re.search(r'embedded-cli/src/', res['location']):
                res = {'driver': driver, 'found': False, 'note': 'driver panic (not counted): ' + res.get('actual', '')[:300]}
    except Exception:
        # a panic located in the library's own source is a witness too (C03); a panic of the driver decides nothing
        err = (p.stderr or p.stdout)
        in_lib = re.search(r'panicked at [^\n]*embedded-cli/src/', err) is not None
        res = {'driver': driver, 'found': p.returncode not in (0, 2) and in_lib, 'input': 'see stderr', 'expected': 'no panic',
               'actual': err[-1500:], 'note': '' if in_lib else 'driver panic (not counted)'}
    return res


def drivers_for(pid, failures):
    ds = []
    for f in failures:
        mod = f['function'].split('::')[0]
        for d in DRIVERS.get(mod, []):
            name = '%s:%s' % (d, pid) if d in FILTERED else d
            if name not in ds:
                ds.append(name)
    return ds


def search(pid, failures, seed, work, features=('history', 'autocomplete', 'help')):
    """-> witness dict or None"""
    binary, log = build(work, features)
    if binary is None:
        raise RuntimeError('; '.join(log[-2:]))
    tried = []
    for d in drivers_for(pid, failures):
        res = run_driver(binary, d, seed)
        tried.append(d)
        if res.get('found'):
            res['seed'] = seed or 1
            res['features'] = list(features)
            res['drivers_tried'] = tried
            res['how'] = 'replayed on the real code built from the working tree (visibility-only copy): ' \
                         'witness %s %s 20000' % (d, seed or 1)
            return res
    return None


def attributed_functions(res):
    """unit-name prefixes (units.json) of the real functions a counterexample of this driver speaks about"""
    d = res.get('driver', '').split(':')[0]
    inp = res.get('input', '')
    if d in ('decoder', 'scalars'):
        return ['input::InputGenerator::', 'utf8::Utf8Accum::']
    if d == 'utils':
        m = re.match(r'(\w+)\(', inp)
        return ['utils::%s' % m.group(1)] if m else ['utils::']
    if d == 'token':
        if inp.startswith('Tokens::new'):
            return ['token::Tokens::new', 'token::TokensIter::next']
        if inp.startswith('arguments of'):
            return ['arguments::ArgsIter::next']
        if inp.startswith('HelpRequest'):
            return ['help::HelpRequest::from_command']
        return ['command::RawCommand::from_tokens']
    if d == 'editor':
        return ['editor::Editor::']
    if d == 'history':
        return ['history::History::']
    if d == 'autocomplete':
        return ['autocomplete::Autocompletion::merge_autocompletion', 'utils::common_prefix_len']
    if d == 'writer':
        return ['writer::Writer::']
    if d in ('derive_fail', 'derive_help'):
        return ['tmpl_group_help::', 'tmpl_command_help::', 'tmpl_group_autocomplete::', 'tmpl_autocomplete::']
    return []


def cex_props(res):
    """the properties a counterexample of a driver speaks about (what exactly was compared, see witness/src)"""
    d = res.get('driver', '')
    inp = str(res.get('input', ''))
    exp = str(res.get('expected', ''))
    act = str(res.get('actual', ''))
    if exp == 'no panic':
        return ['C03']
    if exp.startswith('well-formed UTF-8 in every string the library hands out'):
        # a string taken from the library is not UTF-8: C02, whatever else the driver was looking for; C03, because such a
        # string can only come out of an unchecked constructor whose precondition did not hold (and the editing / carriage
        # property the session was filtered to, whose ideal counterpart never holds ill-formed text)
        return ['C02', 'C03'] + ([d.split(':')[1]] if ':' in d and d.split(':')[1] in ('C05', 'C17') else [])
    if ':' in d:
        return [d.split(':')[1]]
    if d == 'decoder':
        return ['C02', 'C03'] if 'ill-formed' in act else ['C04']
    if d == 'scalars':
        return ['C17', 'C02', 'C03'] if 'ill-formed' in act else ['C17']
    if d == 'utils':
        for k, v in (('char_count', ['C05', 'C17']), ('char_byte_index', ['C05', 'C17']), ('char_pop_front', ['C08', 'C17']),
                     ('trim_start', ['C11']), ('common_prefix_len', ['C11', 'C17']), ('encode_utf8', ['C17'])):
            if inp.startswith(k):
                return v
        return []
    if d == 'token':
        if inp.startswith('Tokens::new'):
            return ['C02'] if 'well-formed' in exp else ['C07', 'C01']
        if inp.startswith('arguments of'):
            return ['C08']
        if inp.startswith('HelpRequest'):
            return ['C12']
        return ['C01']
    if d == 'editor':
        return ['C02'] if 'well-formed' in exp else ['C05', 'C17']
    if d == 'history':
        return ['C10']
    if d == 'autocomplete':
        return ['C02'] if 'well-formed' in exp else ['C11']
    if d == 'writer':
        return ['C13']
    if d == 'derive_help':
        return ['C12']
    if d == 'derive_fail':
        return ['C14']
    if d == 'derive_hidden':
        return ['C16', 'C11']
    if d == 'derive_parse':
        return ['C16']
    return []


def relevant(pid, res, units=None):
    """does this counterexample witness a violation of property pid?"""
    return pid in cex_props(res)


def search_modules(pid, modules, seed, work, units, features=('history', 'autocomplete', 'help')):
    """witness search when the verifier could not decide (front-end rejection of changed code): run the drivers of the
    given modules; only a counterexample that speaks about a function carrying property pid counts"""
    binary, log = build(work, features)
    if binary is None:
        raise RuntimeError('; '.join(log[-2:]))
    tried = []
    names = []
    for mod in modules:
        for d in DRIVERS.get(mod, []):
            name = '%s:%s' % (d, pid) if d in FILTERED else d
            if name not in names:
                names.append(name)
    # every module of the library lies on the path of a session: the end-to-end driver filtered to pid is always tried
    if 'cli:%s' % pid not in names:
        names.append('cli:%s' % pid)
    for name in names:
        tried.append(name)
        res = run_driver(binary, name, seed)
        if res.get('found') and relevant(pid, res, units):
            res.update({'seed': seed or 1, 'features': list(features), 'drivers_tried': tried,
                        'how': 'replayed on the real code built from the working tree (visibility-only copy): '
                               'witness %s %s 20000' % (name, seed or 1)})
            return res
    return None


def search_support(pid, failures, seed, work, units, features=('history', 'autocomplete', 'help')):
    """supporting obligations of pid failed: look for a concrete violation of pid itself -- the end-to-end driver
    filtered to pid, and the function-level drivers of the failing modules when they speak about pid directly"""
    binary, log = build(work, features)
    if binary is None:
        raise RuntimeError('; '.join(log[-2:]))
    tried = []
    names = ['cli:%s' % pid]
    for f in failures:
        for d in DRIVERS.get(f['function'].split('::')[0], []):
            if d not in FILTERED and d not in names:
                names.append(d)
    for name in names:
        tried.append(name)
        res = run_driver(binary, name, seed)
        if res.get('found') and relevant(pid, res, units):
            res.update({'seed': seed or 1, 'features': list(features), 'drivers_tried': tried,
                        'how': 'replayed on the real code built from the working tree (visibility-only copy): '
                               'witness %s %s 20000' % (name, seed or 1)})
            return res
    return None
