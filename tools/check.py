#!/usr/bin/env python3
"""bin/check <Cxx> [--tier quick|thorough] [--replay FILE]

Decides one property by deductive verification (Verus) of the mirror of /repo's current working tree.
exit 0: every obligation of the property discharged (or only known findings)
exit 1: a tagged obligation failed       -> prints `VIOLATION property=<id> replay=<path>[ no-failing-input-found]`
exit 2: undecided (extraction lost an anchor, front-end rejection, rlimit, prelude lemma failure, ...)
"""
import argparse
import hashlib
import json
import os
import re
import shutil
import subprocess
import sys
import tempfile
import time

HERE = os.path.dirname(os.path.abspath(__file__))
VERIF = os.path.dirname(HERE)
sys.path.insert(0, HERE)
import mirror  # noqa: E402
import desugar  # noqa: E402
import rlex  # noqa: E402

import threading
BUILD_LOCK = threading.Lock()
KANI_PROPS = ('C02', 'C03', 'C04', 'C08', 'C17')
PROPS = json.load(open(os.path.join(VERIF, 'props.json')))
ALL_FEATURE_SETS = [tuple(f for f, b in zip(mirror.ALL_FEATURES, bits) if b)
                    for bits in [(1, 1, 1), (0, 1, 1), (1, 0, 1), (1, 1, 0), (0, 0, 1), (0, 1, 0), (1, 0, 0), (0, 0, 0)]]

SAFETY_MSGS = ('precondition not met', 'possible arithmetic underflow/overflow', 'possible bit shift underflow/overflow',
               'possible division by zero', 'unreachable', 'index out of bounds', 'decreases not satisfied',
               'could not prove termination', 'failed to prove termination')
# messages of Verus verification failures; every other error is a front-end problem (undecided, never an alarm)
VERIF_MSGS = SAFETY_MSGS + ('postcondition not satisfied', 'precondition not satisfied', 'assertion failed',
                            'invariant not satisfied', 'unable to prove', 'not satisfied', 'rlimit', 'Resource limit',
                            'resource limit')
UTF8_CTORS = ('from_utf8_unchecked', 'get_unchecked', 'from_u32_unchecked', 'from_utf8_unchecked_mut')


def log(*a):
    print(*a, file=sys.stderr)


# -------------------------------------------------------------------------------------------------
# mirror structure: function spans and tags
# -------------------------------------------------------------------------------------------------

def function_spans(text):
    """-> list of dicts {name (module::[Type::]fn), start, end (1-based lines), module}"""
    toks = rlex.lex(text)
    code = rlex.code_tokens(toks)
    pairs = rlex.match_brackets(toks)
    line_of = []
    ln = 1
    pos_line = {}
    # precompute line numbers of token starts
    offs = 0
    lines_idx = [0]
    for m in re.finditer('\n', text):
        lines_idx.append(m.end())
    import bisect

    def line(off):
        return bisect.bisect_right(lines_idx, off)

    res = []
    ctx = []  # stack of (close_token_index, kind, name)
    k = 0
    while k < len(code):
        ti = code[k]
        t = toks[ti]
        while ctx and ti > ctx[-1][0]:
            ctx.pop()
        if t[0] == 'id' and t[1] == 'mod' and toks[code[k + 1]][0] == 'id' and toks[code[k + 2]][1] == '{':
            ctx.append((pairs[code[k + 2]], 'mod', toks[code[k + 1]][1]))
            k += 3
            continue
        if t[0] == 'id' and t[1] in ('impl', 'trait') and (k == 0 or toks[code[k - 1]][1] not in ('->', ':', '+', '(', ',', '&', '<', 'dyn', '=')):
            # find the `{` at bracket depth 0 (skip generics/where)
            j = k + 1
            name = None
            last_id = None
            after_for = None
            depth = 0
            while j < len(code):
                tt = toks[code[j]]
                if tt[0] == 'p' and tt[1] in '([':
                    j = code.index(pairs[code[j]]) if False else _skip(code, pairs, j)
                    continue
                if tt[0] == 'p' and tt[1] == '<':
                    depth += 1
                elif tt[0] == 'p' and tt[1] == '>':
                    depth -= 1
                elif tt[0] == 'id' and tt[1] == 'for' and depth == 0:
                    after_for = True
                    last_id = None
                elif tt[0] == 'id' and tt[1] == 'where' and depth == 0:
                    # type name fixed before where
                    if name is None:
                        name = last_id
                elif tt[0] == 'id' and depth == 0 and name is None:
                    last_id = tt[1]
                elif tt[0] == 'p' and tt[1] in ('{', ';') and depth == 0:
                    break
                j += 1
            if name is None:
                name = last_id
            if name is None:
                # impl for a type that is not a path (`[u8; N]`, `&mut [u8]`): named by the tokens of the header
                hdr = ''.join(toks[code[x]][1] for x in range(k + 1, min(j, len(code))))
                name = 'impl_' + re.sub(r'[^A-Za-z0-9]+', '_', hdr).strip('_')
            if j < len(code) and toks[code[j]][1] == '{':
                ctx.append((pairs[code[j]], t[1], name))
                k = j + 1
                continue
        if t[0] == 'id' and t[1] == 'fn' and toks[code[k + 1]][0] == 'id':
            fname = toks[code[k + 1]][1]
            # header start: walk back over qualifiers/attrs is not needed; body: first `{` or `;` at depth 0
            j = k + 2
            while j < len(code):
                tt = toks[code[j]]
                if tt[0] == 'p' and tt[1] in '([':
                    j = _skip(code, pairs, j)
                    continue
                if tt[0] == 'p' and tt[1] == ';':
                    break
                if tt[0] == 'p' and tt[1] == '{':
                    # a `{` inside a contract clause (match / if expression) is followed by more clause text
                    after = _skip(code, pairs, j)
                    nxt = toks[code[after]][1] if after < len(code) else ''
                    if nxt in (',', '&', '|', '=', '==>', '.', '?', 'as', '!', '+', '-', '*', '<', '>', '=>', ')', 'else'):
                        j = after
                        continue
                    break
                j += 1
            endtok = pairs[code[j]] if toks[code[j]][1] == '{' else code[j]
            mods = [c[2] for c in ctx if c[1] == 'mod']
            types = [c[2] for c in ctx if c[1] in ('impl', 'trait')]
            inner_fn = [c[2] for c in ctx if c[1] == 'fn']
            qual = '::'.join(mods + types[-1:] + inner_fn + [fname])
            res.append({'name': qual, 'module': mods[0] if mods else '', 'start': line(t[2]),
                        'end': line(toks[endtok][2]), 'has_body': toks[code[j]][1] == '{',
                        'body_off': toks[code[j]][3] if toks[code[j]][1] == '{' else None,
                        'fn_off': t[2], 'end_off': toks[endtok][3]})
            if toks[code[j]][1] == '{':
                ctx.append((endtok, 'fn', fname))
            k = j + 1
            continue
        k += 1
    return res


def _skip(code, pairs, j):
    """j: position in `code` of an opening bracket; returns position after its matching close"""
    close = pairs[code[j]]
    # binary search
    import bisect
    return bisect.bisect_left(code, close) + 1


TAG_RE = re.compile(r'\[(~?C\d\d(?:\s*,\s*~?C\d\d)*)\]')


def line_tags(text):
    """tags per line: `// [C02,C07,~C06]` comments.  A tag comment on a line that opens a block (`proof { // [C07]`,
    `if c { // [C02]`) applies to every line of that block.  `Cxx` = the clause states (part of) property Cxx: its
    failure is a violation of Cxx.  `~Cxx` = the proof of Cxx rests on the clause (support): its failure alone leaves
    Cxx undecided; it becomes a violation only with a concrete counterexample on the real code."""
    tags = {}
    lines = text.split('\n')
    for no, l in enumerate(lines, 1):
        m = TAG_RE.search(l)
        if m and '//' in l and l.index('//') < m.start():
            t = [x.strip() for x in m.group(1).split(',')]
            tags.setdefault(no, [])
            tags[no] += [x for x in t if x not in tags[no]]
            code = l[:l.index('//')].rstrip()
            if code.endswith('{'):
                depth = 0
                k = no
                while k <= len(lines):
                    c = lines[k - 1]
                    c = c[:c.index('//')] if '//' in c else c
                    depth += c.count('{') - c.count('}')
                    tags.setdefault(k, [])
                    tags[k] += [x for x in t if x not in tags[k]]
                    if depth <= 0 and k > no:
                        break
                    if depth <= 0 and k == no:
                        break
                    k += 1
    # A clause line without a tag of its own (one of several lines of a requires / ensures / invariant list) takes the
    # tags of the nearest tagged clause line of the same annotation block: the lines of one list state one contract.
    # (Only `//@`-originated clause lines are concerned; see mirror.hoist: they are contiguous in the mirror.)
    clause_kw = ('requires', 'ensures', 'invariant', 'invariant_except_break', 'decreases', 'recommends')
    n = len(lines)
    i = 0
    while i < n:
        w = lines[i].strip().split(' ')[0].rstrip(',') if lines[i].strip() else ''
        if w in clause_kw and not lines[i].lstrip().startswith('//'):
            j = i
            # the clause list runs until a line that opens the body / starts a statement
            while j + 1 < n:
                t = lines[j + 1].strip()
                if t == '' or t == '{' or (t.startswith(('proof', 'let ', '{', 'fn ', 'pub ', '}', 'for ', 'while ', 'loop', 'if ', 'match ', '---'))
                                           or (t.startswith('self.') and t.endswith(';'))):
                    break
                j += 1
            block = list(range(i + 1, j + 2))   # 1-based line numbers
            tagged = [b for b in block if tags.get(b)]
            if tagged:
                for b in block:
                    if not tags.get(b):
                        after = [x for x in tagged if x > b]
                        src = after[0] if after else tagged[-1]
                        tags[b] = list(tags[src])
            i = j + 1
            continue
        i += 1
    return tags


# -------------------------------------------------------------------------------------------------
# running verus
# -------------------------------------------------------------------------------------------------

def run_verus(path, modules, rlimit=None, seed=None, extra=None, timeout=3000, threads=16):
    cmd = ['verus', path, '--output-json', '--time', '--triggers-mode', 'silent', '--multiple-errors', '24',
           '--num-threads', str(threads), '-V', 'spinoff-all']
    for m in modules:
        cmd += ['--verify-module', m]
    if rlimit:
        cmd += ['--rlimit', str(rlimit)]
    if seed is not None:
        cmd += ['--smt-option', 'smt.random_seed=%d' % seed]
    if extra:
        cmd += extra
    cmd += ['--', '--error-format=json']
    t0 = time.time()
    p = subprocess.run(cmd, stdout=subprocess.PIPE, stderr=subprocess.PIPE, text=True, timeout=timeout,
                       cwd=os.path.dirname(path))
    wall = time.time() - t0
    out = None
    try:
        out = json.loads(p.stdout)
    except Exception:
        pass
    diags = []
    for l in p.stderr.split('\n'):
        l = l.strip()
        if l.startswith('{'):
            try:
                diags.append(json.loads(l))
            except Exception:
                pass
    return {'cmd': ' '.join(cmd), 'rc': p.returncode, 'json': out, 'diags': diags, 'stderr': p.stderr, 'wall': wall}


def breakdown(vjson):
    fns = []
    if not vjson:
        return fns
    try:
        for m in vjson['times-ms']['smt']['smt-run-module-times']:
            for f in m.get('function-breakdown', []):
                fns.append({'function': f['function'], 'mode': f.get('mode:'), 'success': f['success'],
                            'time_ms': f['time'], 'rlimit': f['rlimit'], 'module': m['module']})
    except KeyError:
        pass
    return fns


# -------------------------------------------------------------------------------------------------
# classification
# -------------------------------------------------------------------------------------------------

def hint_block_tags(text, linemap):
    """tags of proof-hint blocks from hint_tags.json (tools/hint_deps.py): every property with an obligation that
    stops verifying when the block is removed -- a failing hint may mask exactly those"""
    p = os.path.join(VERIF, 'hint_tags.json')
    if not os.path.exists(p):
        return {}
    import hint_deps
    db = json.load(open(p))
    lines = text.split('\n')
    res = {}
    for b in hint_deps.find_blocks(lines, linemap):
        key = hint_deps.block_key(lines, linemap, b)
        if key in db and db[key]['deps']:
            for k in range(b[0], b[1] + 1):
                res[k] = db[key]['deps']
    return res


def classify(res, text, linemap, units):
    """-> (failures, undecided_reasons)
    failure = {function, message, kind, line, clause, tags, rendered}"""
    spans = function_spans(text)
    tags = line_tags(text)
    for k, v in hint_block_tags(text, linemap).items():
        tags.setdefault(k, [])
        tags[k] = tags[k] + [x for x in v if x not in tags[k] and '~' + x not in tags[k]]
    lines = text.split('\n')
    failures = []
    undecided = []
    for d in res['diags']:
        if d.get('level') != 'error':
            continue
        msg = d.get('message', '')
        if msg.startswith('aborting due to'):
            continue
        code = (d.get('code') or {}).get('code') if d.get('code') else None
        sp = d.get('spans', [])
        prim = [s for s in sp if s.get('is_primary')]
        mirror_spans = [s for s in sp if s.get('file_name', '').endswith('mirror.rs')]
        if code or not any(m in msg for m in VERIF_MSGS):
            # anything that is not a verification failure (syntax / type / mode / unsupported-construct errors,
            # typically after the source moved away from the annotated baseline) leaves the property undecided
            where = ''
            if mirror_spans:
                o = linemap[mirror_spans[0]['line_start'] - 1]
                where = ' (at %s)' % (':'.join(str(x) for x in o[1:]) if len(o) > 2 else 'generated text')
            undecided.append('front-end error: %s%s' % (msg, where))
            continue
        if 'rlimit' in msg.lower() or 'resource limit' in msg.lower():
            undecided.append('resource limit: %s' % msg)
            continue
        # location used for function attribution: the primary span in the mirror, else any mirror span
        loc = None
        for s in prim + mirror_spans:
            if s.get('file_name', '').endswith('mirror.rs'):
                loc = s
                break
        if loc is None:
            undecided.append('error without mirror location: %s' % msg)
            continue
        # the function being verified contains the *non-clause* span (call site / end of body / assert);
        # take the innermost function containing any mirror span that lies inside a body
        cand = None
        for s in mirror_spans:
            for f in spans:
                if f['start'] <= s['line_start'] <= f['end'] and f['has_body']:
                    # prefer the span labelled as the site of failure
                    if cand is None or (f['end'] - f['start']) < (cand[0]['end'] - cand[0]['start']):
                        pass
                    lab = s.get('label') or ''
                    score = 0 if ('failed this' in lab or 'failed precondition' in lab) else 1
                    if cand is None or score > cand[1] or (score == cand[1] and (f['end'] - f['start']) < (cand[0]['end'] - cand[0]['start'])):
                        cand = (f, score, s)
        fn = cand[0]['name'] if cand else '?'
        # clause lines: spans labelled failed this postcondition / failed precondition / failed this invariant
        clause_lines = []
        for s in sp:
            lab = s.get('label') or ''
            if s.get('file_name', '').endswith('mirror.rs') and ('failed' in lab or msg == 'assertion failed'):
                clause_lines += list(range(s['line_start'], s['line_end'] + 1))
        ftags = set()
        stags = set()
        for cl in clause_lines + [s['line_start'] for s in mirror_spans]:
            for t in tags.get(cl, []):
                if t.startswith('~'):
                    stags.add(t[1:])
                else:
                    ftags.add(t)
        kind = 'functional'
        ext_spans = [s for s in sp if not s.get('file_name', '').endswith('mirror.rs')]
        callee = ''
        if cand:
            callee = lines[cand[2]['line_start'] - 1]
        in_specs_clause = False
        for cl in clause_lines:
            if linemap[cl - 1][0] == 'spec' and linemap[cl - 1][1].startswith('00_'):
                in_specs_clause = True
        if any(m in msg for m in SAFETY_MSGS):
            kind = 'safety'
        elif msg == 'precondition not satisfied' and (ext_spans or in_specs_clause):
            kind = 'safety'
        if fn.startswith('verif_specs'):
            undecided.append('prelude lemma failed: %s (%s)' % (fn, msg))
            continue
        if kind == 'safety':
            ftags = set(ftags) | {'C03'}
            if any(c in callee for c in UTF8_CTORS):
                ftags.add('C02')
        elif not ftags and not stags:
            # an untagged functional clause: the function's own properties -- but not C03 (a wrong result is not a panic)
            u = units.get(fn, {})
            ftags = set(u.get('direct', u.get('props', []))) - {'C03'}
            stags = set(u.get('props', [])) - ftags - {'C03'}
        # Verus goes on after a failed obligation by ASSUMING it (a failed assert, a failed callee precondition, an
        # invariant that is not preserved): every other obligation of the same function was discharged under that
        # assumption, so a failure the tags attribute to other properties still leaves every property the function
        # carries without proof -- they are supported by it (undecided unless a concrete violation is found)
        u_all = units.get(fn, {})
        stags = set(stags) | ((set(u_all.get('props', [])) | set(u_all.get('direct', []))) - set(ftags))
        if not ftags and not stags:
            undecided.append('failure that no property claims (function %s, %s): treated as undecided' % (fn, msg))
        clause_text = '; '.join(lines[cl - 1].strip() for cl in clause_lines[:3])
        failures.append({'function': fn, 'message': msg, 'kind': kind, 'line': loc['line_start'],
                         'origin': linemap[loc['line_start'] - 1], 'clause': clause_text,
                         'tags': sorted(ftags), 'support': sorted(stags - ftags), 'rendered': d.get('rendered', '')})
    if res['json'] is None:
        undecided.append('verus produced no JSON (rc=%s): %s' % (res['rc'], res['stderr'][-2000:]))
    else:
        vr = res['json'].get('verification-results', {})
        if vr.get('encountered-vir-error'):
            undecided.append('verus VIR error')
        if vr.get('encountered-error') and not failures and not undecided:
            undecided.append('verus reported an error that could not be classified: ' + res['stderr'][-1500:])
    return failures, undecided


# -------------------------------------------------------------------------------------------------
# trusted-base scan
# -------------------------------------------------------------------------------------------------

def scan_trusted(text, linemap):
    items = []
    for no, l in enumerate(text.split('\n'), 1):
        s = l.strip()
        if s.startswith('//') and not s.startswith('//@'):
            continue
        for kw in ('assume_specification', 'external_body', 'verifier::external', 'admit()', 'assume('):
            if kw in l:
                org = linemap[no - 1]
                items.append('%s @ %s: %s' % (kw, '%s:%s' % (org[1], org[2]) if len(org) > 2 else 'generated', s[:160]))
                break
    return items


# -------------------------------------------------------------------------------------------------
# main
# -------------------------------------------------------------------------------------------------

def load_known():
    p = os.path.join(VERIF, 'known-findings.json')
    if os.path.exists(p):
        return json.load(open(p))
    return {'findings': []}


def main():
    ap = argparse.ArgumentParser()
    ap.add_argument('prop')
    ap.add_argument('--tier', default=os.environ.get('VERIF_TIER', 'quick'))
    ap.add_argument('--replay', default=None)
    ap.add_argument('--keep', action='store_true')
    a = ap.parse_args()
    pid = a.prop
    if pid not in PROPS:
        sys.exit('unknown property ' + pid)
    if a.replay:
        import replay
        sys.exit(replay.main(pid, a.replay))
    seed = int(os.environ.get('VERIF_SEED', '0') or 0)
    tier = a.tier if a.tier in ('quick', 'thorough') else 'quick'
    cfg = PROPS[pid]
    units = json.load(open(os.path.join(VERIF, 'units.json')))
    t0 = time.time()
    work = tempfile.mkdtemp(prefix='verif-%s-' % pid, dir=os.environ.get('VERIF_SCRATCH', '/var/tmp'))
    ev = {'property_id': pid, 'tier': tier, 'seed': seed, 'level': 'proof', 'coverage': {}, 'assumptions': [],
          'wall_s': 0.0, 'violations': 0}
    rc = 0
    try:
        rc = decide(pid, cfg, tier, seed, units, work, ev)
    except Exception as e:
        if not isinstance(e, (mirror.Undecided, desugar.DesugarMismatch, rlex.LexError)):
            import traceback
            traceback.print_exc()
        reason = '%s: %s' % (type(e).__name__, e)
        ev['coverage'] = {'obligations': 0, 'discharged': 0, 'checker_cmd': 'n/a', 'trusted_base': [],
                          'explanation': 'extraction undecided: %s' % e, 'evaluations': 1, 'distinct_nontrivial': 0}
        rc = 2
        w = None
        if isinstance(e, (mirror.Undecided, desugar.DesugarMismatch, rlex.LexError)):
            # the source left the verified subset: never an alarm by itself; a concrete failing input found on the
            # real code is one
            w = undecided_witness(pid, cfg, [reason], seed, work, units)
        if w:
            ev['violations'] = 1
            ev['coverage']['decided_by'] = 'witness search on the real code (bounded), after extraction failed'
            rdir = os.path.join(VERIF, 'replays') if 'VERIF_NO_EVIDENCE' not in os.environ else os.path.join(work, 'replays')
            os.makedirs(rdir, exist_ok=True)
            h = hashlib.sha256(json.dumps([w.get('input'), w.get('driver')]).encode()).hexdigest()[:10]
            rpath = os.path.join(rdir, '%s-%s.json' % (pid, h))
            json.dump({'property': pid, 'failed_obligations': [
                {'obligation': 'undischarged (extraction): %s' % reason[:300], 'clause': '', 'tags': [pid]}],
                'witness': w}, open(rpath, 'w'), indent=1)
            print('undischarged: %s' % reason[:300])
            print('counterexample on the real code: %s  expected %s  actual %s' % (w.get('input'), w.get('expected'), w.get('actual')))
            print('VIOLATION property=%s replay=%s' % (pid, rpath))
            rc = 1
        else:
            print('UNDECIDED property=%s extraction/tooling: %s' % (pid, reason))
    finally:
        ev['wall_s'] = round(time.time() - t0, 2)
        # self-test runs against a scratch copy of the sources (VERIF_REPO_SRC) must not overwrite the evidence
        keep_ev = 'VERIF_REPO_SRC' in os.environ or 'VERIF_NO_EVIDENCE' in os.environ
        evdir = os.path.join(VERIF, 'evidence') if not keep_ev else os.path.join(work, 'evidence')
        os.makedirs(evdir, exist_ok=True)
        json.dump(ev, open(os.path.join(evdir, pid + '.json'), 'w'), indent=1)
        if not a.keep:
            if not os.environ.get("VERIF_KEEP_SCRATCH"):
                shutil.rmtree(work, ignore_errors=True)
        else:
            log('kept', work)
    sys.exit(rc)


def vacuity_run(text, linemap, mods, units, sub):
    """Reachability guard: `assert(false)` is placed at the entry of every function under contract; each of them must
    FAIL -- a function in which it verifies has an unsatisfiable precondition (or wf invariant), so everything proved
    about it would be vacuous.  -> list of vacuous function names"""
    spans = [f for f in function_spans(text) if f['has_body'] and f['module'] in mods
             and units.get(f['name'], {}).get('status') == 'verify']
    out = text
    for f in sorted(spans, key=lambda f: -f['body_off']):
        out = out[:f['body_off']] + ' proof { assert(false); } ' + out[f['body_off']:]
    vdir = os.path.join(sub, 'vacuity')
    os.makedirs(vdir, exist_ok=True)
    vpath = os.path.join(vdir, 'mirror.rs')
    open(vpath, 'w').write(out)
    res = run_verus(vpath, mods, threads=16)
    if res['json'] is None:
        return None, ['vacuity run produced no result']
    ok = set(r['function'].split('::', 1)[1] for r in breakdown(res['json']) if r['success'])
    vac = [f['name'] for f in spans if f['name'] in ok]
    return len(spans), vac


def externalise(text, names):
    """Replace the bodies of the named functions by `{ unimplemented!() }` and mark them external_body: their contracts
    stay (assumed), their text -- which the front end rejected, e.g. because the annotations no longer fit it -- is no
    longer part of the proof.  The number of lines is preserved."""
    spans = [f for f in function_spans(text) if f['name'] in names and f['has_body']]
    # innermost duplicates (nested fns) are not expected; process from the end so offsets stay valid
    for f in sorted(spans, key=lambda f: -f['body_off']):
        body = text[f['body_off'] - 1:f['end_off']]
        keep_lines = body.count('\n')
        text = text[:f['body_off'] - 1] + '{ unimplemented!() }' + '\n' * keep_lines + text[f['end_off']:]
        # the attribute goes in front of the `fn` keyword's line start (after visibility qualifiers is not valid: put it
        # before the whole item line)
        ls = text.rfind('\n', 0, f['fn_off']) + 1
        text = text[:ls] + '#[verifier::external_body] ' + text[ls:]
    return text


def front_end_functions(res, text, linemap):
    """functions (of mirrored modules) in which the front end reported an error -> (names, errors elsewhere)"""
    spans = function_spans(text)
    names = set()
    elsewhere = []
    for d in res['diags']:
        if d.get('level') != 'error':
            continue
        msg = d.get('message', '')
        if msg.startswith('aborting due to') or any(m in msg for m in VERIF_MSGS) and not (d.get('code') or {}).get('code'):
            continue
        locs = [sp for sp in d.get('spans', []) if sp.get('file_name', '').endswith('mirror.rs')]
        hit = None
        for sp in locs:
            cands = [f for f in spans if f['has_body'] and f['start'] <= sp['line_start'] <= f['end'] and f['module'] not in ('', 'verif_specs')]
            if cands:
                hit = min(cands, key=lambda f: f['end'] - f['start'])
                # errors reported at a clause of a trait declaration / callee contract: skip those spans
                if sp.get('is_primary'):
                    break
        if hit:
            names.add(hit['name'])
        else:
            elsewhere.append(msg)
    return names, elsewhere


def restructured_functions(text, linemap, info, units):
    """functions whose source text differs from the annotated baseline by more than small in-place edits (statements
    added, removed or moved; new functions): their proof hints were written for a different text, so a failing obligation
    in them is not believed without a concrete counterexample"""
    struct = {}
    for m in info['modules']:
        struct[m['name'] + '.rs'] = set(m.get('changed', {}).get('struct', []))
    res = set()
    for f in function_spans(text):
        if f['module'] in ('', 'verif_specs'):
            continue
        hit = False
        for no in range(f['start'], min(f['end'], len(linemap)) + 1):
            o = linemap[no - 1]
            if o[0] == 'src' and o[2] in struct.get(o[1], ()):
                hit = True
                break
        if hit or (f['has_body'] and f['name'] not in units and linemap[f['start'] - 1][0] == 'src'):
            res.add(f['name'])
    return res


def support_witness(pid, cfg, failures, seed, work, units):
    """witness search for a property whose own clauses were not refuted (supporting contract failed, restructured or
    externalised function): under the default feature set, for C16 under every feature set"""
    import witness
    if os.environ.get('VERIF_NO_WITNESS'):
        return None
    if not cfg.get('all_feature_sets'):
        return witness.search_support(pid, failures, seed, work, units)
    for fs in ALL_FEATURE_SETS:
        try:
            w = witness.search_support(pid, failures, seed, work, units, features=fs)
        except RuntimeError as e:
            if re.search(r'--> embedded-cli(-macros)?/src/', str(e)):
                return {'driver': 'build', 'found': True, 'features': list(fs), 'input': 'cargo build --no-default-features --features macros,%s' % ','.join(fs),
                        'expected': 'the library builds', 'actual': str(e)[-1500:], 'seed': seed or 1}
            continue
        if w:
            return w
    return None


def undecided_witness(pid, cfg, all_undec, seed, work, units):
    if os.environ.get('VERIF_NO_WITNESS'):
        return None
    mods = []
    for u in all_undec:
        for m in re.findall(r'(\w+)\.rs', u):
            if m in cfg['modules'] and m not in mods:
                mods.append(m)
        for m in re.findall(r'function (\w+)::', u):
            if m in cfg['modules'] and m not in mods:
                mods.append(m)
    if not mods:
        mods = list(cfg['modules'])
    try:
        import witness
        if cfg.get('all_feature_sets'):
            # C16: the breakage may only exist under some feature set
            for fs in ALL_FEATURE_SETS:
                try:
                    w = witness.search_modules(pid, mods, seed, work, units, features=fs)
                except RuntimeError as e:
                    # "the library builds under every combination" is part of C16 -- but only a compile error located
                    # in the library's own sources counts (a driver that does not build decides nothing)
                    if not re.search(r'--> embedded-cli(-macros)?/src/', str(e)):
                        log('witness build failed (%s): %s' % (','.join(fs), str(e)[-300:]))
                        continue
                    return {'driver': 'build', 'found': True, 'features': list(fs), 'input': 'cargo build --no-default-features --features macros,%s' % ','.join(fs),
                            'expected': 'the library builds', 'actual': str(e)[-1500:], 'seed': seed or 1}
                if w:
                    return w
            return None
        return witness.search_modules(pid, mods, seed, work, units)
    except Exception as e:   # the witness search is best effort
        log('witness search failed: %s' % e)
        return None


def decide(pid, cfg, tier, seed, units, work, ev):
    feature_sets = [mirror.ALL_FEATURES]
    if cfg.get('all_feature_sets') or tier == 'thorough':
        feature_sets = ALL_FEATURE_SETS
    all_fail = []
    all_undec = []
    fn_rows = []
    rewrites = []
    trusted = []
    cmds = []
    solver_ms = 0
    modules_info = None
    extra_cov = {}
    externalised = {}
    def one(fs):
        sub = os.path.join(work, 'fs_' + ('_'.join(fs) or 'none'))
        os.makedirs(sub)
        mpath = os.path.join(sub, 'mirror.rs')
        mods = [m for m in cfg['modules'] if (m != 'history' or 'history' in fs)
                and (not (m.startswith('tmpl_') and 'autocomplete' in m) or 'autocomplete' in fs)
                and (m not in ('tmpl_group_help', 'tmpl_command_help') or 'help' in fs)]
        # the prelude does not depend on the feature set (only three spec constants do): verified with the default set
        pre = ['verif_specs'] if fs == mirror.ALL_FEATURES else []
        ext = set()
        lenient = False
        for attempt in range(8):
            with BUILD_LOCK:   # the desugaring catalogue keeps per-text counters: mirrors are built one at a time
                # only the modules of the property and what they mention are mirrored: a change elsewhere cannot make
                # this property undecided
                desugar.LENIENT[0] = lenient
                mirror.LENIENT[0] = lenient
                try:
                    text0, linemap, info = mirror.build(fs, modules=mirror.closure(cfg['modules']))
                except (desugar.DesugarMismatch, mirror.Undecided):
                    if lenient:
                        raise
                    lenient = True      # retry: mismatching rules skipped, orphaned in-body clause blocks dropped;
                    continue            # the functions concerned are isolated below
                finally:
                    desugar.LENIENT[0] = False
                    mirror.LENIENT[0] = False
            text = externalise(text0, ext) if ext else text0
            open(mpath, 'w').write(text)
            res = run_verus(mpath, pre + mods, threads=16 if len(feature_sets) == 1 else 6)
            # Function-level isolation: a function in which the front end reports an error (annotations that no longer
            # fit a restructured body, an std call without specification, ...) is externalised -- body dropped, contract
            # assumed -- and the run is repeated, so that every other function is still verified.  The properties the
            # externalised function carries are undecided (see decide).
            names, elsewhere = front_end_functions(res, text, linemap)
            new = names - ext
            if not new or elsewhere:
                break
            ext |= new
        externalised[','.join(fs)] = sorted(ext)
        fails, undec = classify(res, text, linemap, units)
        restr = restructured_functions(text, linemap, info, units)
        for f in fails:
            f['features'] = list(fs)
            f['restructured'] = f['function'] in restr
        extra_undec = []
        if tier == 'thorough' and fs == mirror.ALL_FEATURES:
            # proof-stability reruns with different solver seeds: a flip is reported as unstable, not as a violation
            for k in range(1, 3):
                r2 = run_verus(mpath, pre + mods, seed=seed * 7 + k)
                f2, u2 = classify(r2, text, linemap, units)
                base = sorted((x['function'], x['message'], x['clause']) for x in fails)
                other = sorted((x['function'], x['message'], x['clause']) for x in f2)
                if base != other:
                    extra_undec.append('unstable proof: result differs under smt.random_seed=%d' % (seed * 7 + k))
            if pid in KANI_PROPS and not os.environ.get('VERIF_NO_KANI'):
                # Kani harnesses on the real functions: full-domain ones are complete proofs against core's own UTF-8
                # code, the raw-pointer ones are bounded stand-ins (labelled)
                try:
                    import kani_run
                    extra_cov['kani'] = kani_run.run(work, pid)
                except Exception as e:
                    extra_cov['kani'] = [{'harness': '*', 'status': 'error', 'tail': str(e)[-500:]}]
            n, vac = vacuity_run(text, linemap, mods, units, sub)
            extra_cov['vacuity_guard'] = {'functions_with_assert_false_at_entry': n, 'verified_anyway': vac,
                                          'meaning': 'assert(false) at the entry of every function under contract must fail'}
            for v in vac:
                extra_undec.append('vacuous contract: assert(false) at the entry of %s verifies (unsatisfiable precondition)' % v)
        return fs, text, linemap, info, res, fails, undec + extra_undec, sub

    import concurrent.futures
    with concurrent.futures.ThreadPoolExecutor(max_workers=3 if len(feature_sets) > 1 else 1) as ex:
        outs = list(ex.map(one, feature_sets))
    for (fs, text, linemap, info, res, fails, undec, sub) in outs:
        if modules_info is None:
            modules_info = info['modules']
            rewrites = info['rewrites']
            trusted = scan_trusted(text, linemap)
        cmds.append(res['cmd'].replace(sub, '<scratch>'))
        all_fail += fails
        all_undec += undec
        for r in breakdown(res['json']):
            r['features'] = ','.join(fs)
            fn_rows.append(r)
            solver_ms += r['time_ms']
    # all source functions must be known to units.json
    # (functions of mirrored modules that are not listed -> undecided: new code not under contract)
    if cfg.get('all_feature_sets'):
        # C16: a clause that holds with all features on but fails with some feature off (or a clause tagged C16)
        full = ','.join(mirror.ALL_FEATURES)
        base = set((f['function'], f['clause'], f['message']) for f in all_fail if ','.join(f['features']) == full)
        for f in all_fail:
            if ','.join(f['features']) != full and (f['function'], f['clause'], f['message']) not in base and f['tags']:
                if pid not in f['tags']:
                    f['tags'] = sorted(set(f['tags']) | {pid})
    mine = [f for f in all_fail if pid in f['tags']]
    text, linemap, info = outs[0][1], outs[0][2], outs[0][3]
    for f in function_spans(text):
        if linemap[f['start'] - 1][0] != 'src':
            continue  # spec/proof function contributed by the annotations
        if f['module'] in cfg['modules'] and f['name'] not in units and not f['name'].startswith('verif_specs'):
            all_undec.append('function %s is not listed in units.json (new code not under contract)' % f['name'])
    relevant_rows = [r for r in fn_rows if not r['function'].split('::', 1)[-1].startswith('verif_specs')]
    # obligations of this property: one per function under contract that carries the property (units.json),
    # plus every prelude lemma; a function is discharged for this property when Verus reports no failed clause
    # attributed to the property in it (Verus checks and reports each clause separately)
    def short(n):
        return n.split('::', 1)[1] if '::' in n else n
    failed_fns = set(f['function'] for f in mine)
    mine_rows = []
    for r in fn_rows:
        n = short(r['function'])
        if n.startswith('verif_specs') or pid in units.get(n, {}).get('props', []) or n not in units or cfg.get('all_feature_sets'):
            r = dict(r)
            r['discharged_for_property'] = r['success'] or (n not in failed_fns)
            mine_rows.append(r)
    other_rows = len(fn_rows) - len(mine_rows)
    fn_rows_all = fn_rows
    fn_rows = mine_rows
    obligations = len(fn_rows)
    discharged = len([r for r in fn_rows if r['discharged_for_property']])
    samples = []
    for l_no, l in enumerate(text.split('\n'), 1):
        if '[' + pid in l or (',' + pid) in l:
            m = TAG_RE.search(l)
            if m and pid in m.group(1):
                samples.append({'clause': l.strip()[:220], 'origin': linemap[l_no - 1]})
    known = load_known()
    ev['coverage'] = {
        'obligations': obligations,
        'discharged': discharged,
        'checker_cmd': cmds[0] if cmds else '',
        'trusted_base': trusted,
        'backend': 'Verus 0.2026.09.13 / Z3 (single-file mode)',
        'solver_time_ms': solver_ms,
        'feature_sets': [','.join(fs) or '(none)' for fs in feature_sets],
        'modules_verified': ['verif_specs'] + cfg['modules'],
        'functions': fn_rows,
        'other_functions_in_verified_modules': other_rows,
        'tagged_clauses': len(samples),
        'samples': samples[:12] or [{'note': 'implicit obligations (bounds, overflow, callee preconditions, termination) of every mirrored function'}],
        'source_files': modules_info,
        'rewrites_applied': rewrites,
        'failures': [{k: v for k, v in f.items() if k != 'rendered'} for f in all_fail],
        'undecided': all_undec,
        'explanation': cfg.get('what', ''),
    }
    ev['coverage'].update(extra_cov)
    ev['assumptions'] = cfg.get('assumptions', []) + ['see coverage.trusted_base for the mechanical scan of assume_specification / external_body items']
    if not fn_rows and not all_undec:
        print('UNDECIDED property=%s no obligations generated' % pid)
        return 2
    kani_failed = [k for k in extra_cov.get('kani', []) if k.get('status') == 'failed']
    for k in extra_cov.get('kani', []):
        if k.get('status') in ('error', 'timeout'):
            print('NOTE kani harness %s: %s (not counted)' % (k['harness'], k['status']))
    if kani_failed and not mine:
        ev['violations'] = len(kani_failed)
        rdir = os.path.join(VERIF, 'replays') if 'VERIF_NO_EVIDENCE' not in os.environ else os.path.join(work, 'replays')
        os.makedirs(rdir, exist_ok=True)
        rpath = os.path.join(rdir, '%s-kani-%s.json' % (pid, kani_failed[0]['harness']))
        json.dump({'property': pid, 'failed_obligations': [
            {'obligation': 'kani harness %s (%s, %s)' % (k['harness'], k['kind'], k['bound']), 'clause': '; '.join(k['failed_checks']),
             'tags': [pid], 'verifier_output': k.get('concrete_playback', '')} for k in kani_failed], 'witness': None}, open(rpath, 'w'), indent=1)
        for k in kani_failed:
            print('failed obligation: kani harness %s :: %s' % (k['harness'], '; '.join(k['failed_checks'])[:200]))
        has_cex = any(k.get('concrete_playback') for k in kani_failed)
        print('VIOLATION property=%s replay=%s%s' % (pid, rpath, '' if has_cex else ' no-failing-input-found'))
        return 1
    mine_restr = [f for f in mine if f.get('restructured')]
    if mine and len(mine_restr) == len(mine) and not kani_failed:
        # Every failing obligation of this property lies in a function that was restructured relative to the annotated
        # baseline (statements added / removed / moved, helper extracted ...).  The proof hints no longer fit that text, so
        # the failure may be the proof's, not the code's: it is reported as a violation only together with a concrete
        # counterexample on the real code; otherwise the property is undecided.
        w = None
        try:
            import witness
            w = support_witness(pid, cfg, mine_restr, seed, work, units)
        except Exception as e:
            log('witness search failed: %s' % e)
        for f in mine_restr[:4]:
            print('obligation failed in a restructured function: %s / %s :: %s' % (f['function'], f['message'], f['clause'][:160]))
        if w:
            ev['violations'] = 1
            ev['coverage']['decided_by'] = 'obligation failed in a restructured function + witness on the real code'
            rdir = os.path.join(VERIF, 'replays') if 'VERIF_NO_EVIDENCE' not in os.environ else os.path.join(work, 'replays')
            os.makedirs(rdir, exist_ok=True)
            h = hashlib.sha256(json.dumps([w.get('input'), w.get('driver')]).encode()).hexdigest()[:10]
            rpath = os.path.join(rdir, '%s-%s.json' % (pid, h))
            json.dump({'property': pid, 'failed_obligations': [
                {'obligation': '%s / %s' % (f['function'], f['message']), 'clause': f['clause'], 'tags': f['tags'],
                 'origin': f['origin'], 'features': f['features'], 'verifier_output': f['rendered']} for f in mine_restr], 'witness': w},
                open(rpath, 'w'), indent=1)
            print('counterexample on the real code: %s  expected %s  actual %s' % (w.get('input'), str(w.get('expected'))[:300], str(w.get('actual'))[:300]))
            print('VIOLATION property=%s replay=%s' % (pid, rpath))
            return 1
        print('UNDECIDED property=%s (the failing obligations are in restructured functions; no concrete violation of %s found on the real code)' % (pid, pid))
        return 2
    if mine:
        # known findings
        unknown = []
        for f in mine:
            kf = None
            for k in known.get('findings', []):
                if k.get('status') == 'known' and k['property'] == pid and k['function'] == f['function'] and k.get('clause_contains', '') in f['clause']:
                    kf = k
            if kf:
                print('KNOWN-FINDING: property=%s %s' % (pid, kf['what']))
            else:
                unknown.append(f)
        if unknown:
            ev['violations'] = len(unknown)
            rdir = os.path.join(VERIF, 'replays') if 'VERIF_NO_EVIDENCE' not in os.environ else os.path.join(work, 'replays')
            os.makedirs(rdir, exist_ok=True)
            h = hashlib.sha256(json.dumps([(f['function'], f['clause'], f['message']) for f in unknown]).encode()).hexdigest()[:10]
            rpath = os.path.join(rdir, '%s-%s.json' % (pid, h))
            rep = {'property': pid, 'failed_obligations': [
                {'obligation': '%s / %s' % (f['function'], f['message']), 'clause': f['clause'], 'tags': f['tags'],
                 'origin': f['origin'], 'features': f['features'], 'verifier_output': f['rendered']} for f in unknown],
                'witness': None}
            suffix = ' no-failing-input-found'
            try:
                import witness
                w = witness.search(pid, unknown, seed, work)
                if w:
                    rep['witness'] = w
                    suffix = ''
            except Exception as e:  # witness search is decoration only
                rep['witness_error'] = str(e)
            json.dump(rep, open(rpath, 'w'), indent=1)
            for f in unknown[:6]:
                print('failed obligation: %s / %s :: %s' % (f['function'], f['message'], f['clause'][:200]))
            print('VIOLATION property=%s replay=%s%s' % (pid, rpath, suffix))
            return 1
    ext_all = sorted(set(x for v in externalised.values() for x in v))
    if ext_all:
        ev['coverage']['externalised_functions'] = {'functions': ext_all,
            'meaning': 'the front end rejected these functions (annotations no longer fit their text / unsupported construct): '
                       'body dropped, contract assumed, every other function verified; properties they carry are undecided'}
    def carried(f):
        # what an externalised function carries: its own tags, and -- for a method of a trait impl, whose contract is
        # written on the trait's declaration -- those of the declarations of the same name in the same module
        ps = set(units.get(f, {}).get('props', []))
        mod, last = f.split('::')[0], f.split('::')[-1]
        for name, u in units.items():
            if name != f and name.split('::')[0] == mod and name.split('::')[-1] == last:
                ps |= set(u.get('props', []))
        return ps
    affected = [f for f in ext_all if pid in carried(f) or (f not in units and f.split('::')[0] in cfg['modules'])]
    if affected and not mine:
        w = None
        try:
            import witness
            w = support_witness(pid, cfg, [{'function': f} for f in affected], seed, work, units)
        except Exception as e:
            log('witness search failed: %s' % e)
        for f in affected[:6]:
            print('undischarged: function %s could not be brought under its contract (front end: annotations do not fit its current text)' % f)
        if w:
            ev['violations'] = 1
            ev['coverage']['decided_by'] = 'function not verifiable in its current form + witness on the real code'
            rdir = os.path.join(VERIF, 'replays') if 'VERIF_NO_EVIDENCE' not in os.environ else os.path.join(work, 'replays')
            os.makedirs(rdir, exist_ok=True)
            h = hashlib.sha256(json.dumps([w.get('input'), w.get('driver')]).encode()).hexdigest()[:10]
            rpath = os.path.join(rdir, '%s-%s.json' % (pid, h))
            json.dump({'property': pid, 'failed_obligations': [
                {'obligation': 'undischarged: %s (externalised)' % f, 'clause': '', 'tags': [pid]} for f in affected], 'witness': w},
                open(rpath, 'w'), indent=1)
            print('counterexample on the real code: %s  expected %s  actual %s' % (w.get('input'), str(w.get('expected'))[:300], str(w.get('actual'))[:300]))
            print('VIOLATION property=%s replay=%s' % (pid, rpath))
            return 1
        print('UNDECIDED property=%s (%d function(s) carrying it could not be verified in their current form; no concrete violation of %s found on the real code)' % (pid, len(affected), pid))
        return 2
    sup = [f for f in all_fail if pid in f.get('support', []) and pid not in f['tags']]
    if sup and not all_undec:
        # Only obligations that *support* this property failed (the property's own clauses still verify, but they were
        # proved against contracts that no longer hold).  That alone is not an alarm: the property is undecided unless the
        # witness search shows a concrete violation of it on the real code.
        w = None
        try:
            import witness
            w = support_witness(pid, cfg, sup, seed, work, units)
        except Exception as e:
            log('witness search failed: %s' % e)
        for f in sup[:4]:
            print('supporting obligation failed: %s / %s :: %s' % (f['function'], f['message'], f['clause'][:160]))
        if w:
            ev['violations'] = 1
            ev['coverage']['decided_by'] = 'supporting obligation failed + witness on the real code'
            rdir = os.path.join(VERIF, 'replays') if 'VERIF_NO_EVIDENCE' not in os.environ else os.path.join(work, 'replays')
            os.makedirs(rdir, exist_ok=True)
            h = hashlib.sha256(json.dumps([w.get('input'), w.get('driver')]).encode()).hexdigest()[:10]
            rpath = os.path.join(rdir, '%s-%s.json' % (pid, h))
            json.dump({'property': pid, 'failed_obligations': [
                {'obligation': '%s / %s' % (f['function'], f['message']), 'clause': f['clause'], 'tags': ['~' + pid],
                 'origin': f['origin'], 'features': f['features'], 'verifier_output': f['rendered']} for f in sup], 'witness': w},
                open(rpath, 'w'), indent=1)
            print('counterexample on the real code: %s  expected %s  actual %s' % (w.get('input'), w.get('expected'), w.get('actual')))
            print('VIOLATION property=%s replay=%s' % (pid, rpath))
            return 1
        print('UNDECIDED property=%s (a contract this property rests on no longer verifies; no concrete violation of %s found)' % (pid, pid))
        return 2
    if all_undec:
        # The verifier could not decide (typically: the code moved away from the annotated baseline and the front end
        # rejects the mirror).  That is never an alarm by itself.  The witness search is run on the real code: a
        # concrete failing input of a function carrying this property is a violation (replayed counterexample);
        # finding none leaves the property undecided (exit 2).
        w = undecided_witness(pid, cfg, all_undec, seed, work, units)
        if w:
            ev['violations'] = 1
            ev['coverage']['decided_by'] = 'witness search on the real code (bounded), after the verifier could not decide'
            rdir = os.path.join(VERIF, 'replays') if 'VERIF_NO_EVIDENCE' not in os.environ else os.path.join(work, 'replays')
            os.makedirs(rdir, exist_ok=True)
            h = hashlib.sha256(json.dumps([w.get('input'), w.get('driver')]).encode()).hexdigest()[:10]
            rpath = os.path.join(rdir, '%s-%s.json' % (pid, h))
            json.dump({'property': pid, 'failed_obligations': [
                {'obligation': 'undischarged (verifier front end): %s' % u[:300], 'clause': '', 'tags': [pid]} for u in all_undec[:5]],
                'witness': w}, open(rpath, 'w'), indent=1)
            print('undischarged: %s' % all_undec[0][:300])
            print('counterexample on the real code: %s  expected %s  actual %s' % (w.get('input'), w.get('expected'), w.get('actual')))
            print('VIOLATION property=%s replay=%s' % (pid, rpath))
            return 1
        print('UNDECIDED property=%s' % pid)
        for u in all_undec[:10]:
            print('  ' + u[:600])
        return 2
    # ---- bounded stand-ins (labelled bounded, never counted as proved): drivers on the real code for what no contract
    # reaches (output of the derive macros, feature forwarding), and -- thorough tier -- the session driver of the property
    bounded = list(cfg.get('bounded', {}).get('quick', []))
    if tier == 'thorough':
        bounded += [d for d in cfg.get('bounded', {}).get('thorough', []) if d not in bounded]
    if bounded and not os.environ.get('VERIF_NO_WITNESS'):
        rows = []
        try:
            import witness
            fsets = [mirror.ALL_FEATURES]
            if cfg.get('all_feature_sets'):
                # C16: the stand-ins are built and run under several feature sets (all eight in the thorough tier)
                fsets = ALL_FEATURE_SETS if tier == 'thorough' else [tuple(x) for x in cfg.get('bounded', {}).get('quick_feature_sets', [list(mirror.ALL_FEATURES)])]
            for fs in fsets:
                binary, blog = witness.build(work, fs)
                if binary is None:
                    if cfg.get('all_feature_sets') and re.search(r'--> embedded-cli(-macros)?/src/', blog[-1]):
                        rows.append({'driver': 'build', 'features': list(fs), 'found': True, 'input': 'cargo build --no-default-features --features macros,%s' % ','.join(fs),
                                     'expected': 'the library builds', 'actual': blog[-1][-1500:], 'seed': seed or 1})
                        break
                    print('NOTE bounded stand-in not run (witness build failed): %s' % blog[-1][-200:].replace('\n', ' '))
                    continue
                for d in bounded:
                    if d == 'derive_help' and fs != mirror.ALL_FEATURES:
                        continue
                    res = witness.run_driver(binary, d, seed, 20000)
                    res.update({'features': list(fs), 'seed': seed or 1, 'bound': {'cli': '80000 random sessions of up to 30 key units / API calls', 'derive_help': 'one fixed declaration, every command path x option placement',
                                          'derive_fail': 'one fixed declaration, 7 help lines x every failure position', 'derive_hidden': 'one fixed group declaration, 8 typed prefixes',
                                          'derive_parse': 'one fixed declaration, 32 lines'}.get(d.split(':')[0], '20000 random cases / exhaustive small inputs (see witness/src)')})
                    rows.append(res)
                    if res.get('found'):
                        break
                if rows and rows[-1].get('found'):
                    break
        except Exception as e:
            print('NOTE bounded stand-in not run: %s' % str(e)[-200:])
        ev['coverage']['bounded_standins'] = [{k: v for k, v in r.items() if k in ('driver', 'features', 'found', 'bound', 'note', 'input', 'expected', 'actual')} for r in rows]
        bad = [r for r in rows if r.get('found')]
        if bad:
            w = bad[0]
            w['how'] = 'bounded stand-in on the real code: witness %s %s 20000 (features %s)' % (w['driver'], seed or 1, ','.join(w['features']))
            ev['violations'] = 1
            ev['coverage']['decided_by'] = 'bounded stand-in on the real code (the proof obligations are discharged; what failed is outside their reach)'
            rdir = os.path.join(VERIF, 'replays') if 'VERIF_NO_EVIDENCE' not in os.environ else os.path.join(work, 'replays')
            os.makedirs(rdir, exist_ok=True)
            h = hashlib.sha256(json.dumps([w.get('input'), w.get('driver')]).encode()).hexdigest()[:10]
            rpath = os.path.join(rdir, '%s-%s.json' % (pid, h))
            json.dump({'property': pid, 'failed_obligations': [
                {'obligation': 'bounded stand-in %s (not a proof obligation)' % w['driver'], 'clause': '', 'tags': [pid]}], 'witness': w},
                open(rpath, 'w'), indent=1)
            print('failed obligation: bounded stand-in %s :: %s' % (w['driver'], str(w.get('expected'))[:200]))
            print('counterexample on the real code: %s  expected %s  actual %s' % (w.get('input'), str(w.get('expected'))[:300], str(w.get('actual'))[:300]))
            print('VIOLATION property=%s replay=%s' % (pid, rpath))
            return 1
    print('OK property=%s obligations=%d discharged=%d solver_ms=%d' % (pid, obligations, discharged, solver_ms))
    return 0


if __name__ == '__main__':
    main()
