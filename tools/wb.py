import sys,tempfile,shutil
sys.path.insert(0,'/verif/tools')
import witness
w=tempfile.mkdtemp(dir='/var/tmp')
b,log=witness.build(w)
print(b); print('\n'.join(log)[-5000:])
if b:
    for d in sys.argv[1:]:
        print(witness.run_driver(b,d,1))
shutil.rmtree(w)
