#!/bin/bash
# try_patch.sh <patch.diff> <prop>... : run checks against a scratch copy of the sources with the patch applied
P=$1; shift
D=$(mktemp -d /var/tmp/tp-XXXXXX)
mkdir -p $D/embedded-cli; cp -r /repo/embedded-cli/src $D/embedded-cli/src
mkdir -p $D/embedded-cli-macros; cp -r /repo/embedded-cli-macros/src $D/embedded-cli-macros/src
(cd $D && patch -s -p1 < $P) || { echo "patch failed"; rm -rf $D; exit 3; }
for p in "$@"; do VERIF_REPO_SRC=$D/embedded-cli/src /verif/bin/check $p | tail -3; done
rm -rf $D
