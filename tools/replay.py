"""bin/check <Cxx> --replay <file>: re-execute a recorded violation against /repo's current working tree.
1. the concrete witness (if the replay file carries one) is re-run on the real code (tools/witness.py);
2. the failed obligations named in the file are re-checked by the verifier.
exit 1 if the violation is still there (prints expected vs actual of the witness and the obligations that still fail),
exit 0 if neither reproduces."""
import json
import os
import shutil
import subprocess
import sys
import tempfile

HERE = os.path.dirname(os.path.abspath(__file__))
VERIF = os.path.dirname(HERE)


def main(pid, path):
    rep = json.load(open(path))
    print('replay of %s: %d failed obligation(s) recorded' % (path, len(rep.get('failed_obligations', []))))
    for o in rep.get('failed_obligations', []):
        print('  obligation: %s :: %s' % (o['obligation'], o.get('clause', '')[:160]))
    still = False
    w = rep.get('witness')
    if w:
        import witness
        work = tempfile.mkdtemp(prefix='verif-replay-', dir=os.environ.get('VERIF_SCRATCH', '/var/tmp'))
        try:
            binary, log = witness.build(work, tuple(w.get('features', ('history', 'autocomplete', 'help'))))
            if binary is None:
                print('witness could not be rebuilt: %s' % log[-1][:500])
            else:
                res = witness.run_driver(binary, w['driver'], w.get('seed', 1))
                if res.get('found'):
                    still = True
                    print('witness reproduces on the real code:')
                    print('  input:    %s' % res.get('input'))
                    print('  expected: %s' % res.get('expected'))
                    print('  actual:   %s' % res.get('actual'))
                else:
                    print('recorded witness (%s) no longer fails on the real code' % w.get('input'))
        finally:
            shutil.rmtree(work, ignore_errors=True)
    else:
        print('no concrete failing input was recorded (no-failing-input-found): re-checking the obligations only')
    env = dict(os.environ, VERIF_NO_EVIDENCE='1')
    p = subprocess.run([os.path.join(VERIF, 'bin', 'check'), pid, '--tier', 'quick'], stdout=subprocess.PIPE,
                       stderr=subprocess.DEVNULL, text=True, env=env)
    names = set(o['obligation'] for o in rep.get('failed_obligations', []))
    failing_now = [l for l in p.stdout.split('\n') if l.startswith(('failed obligation: ', 'undischarged: ', 'supporting obligation failed: '))]
    def body(l):
        return l.split(': ', 1)[1]
    same = [l for l in failing_now if any(body(l)[:60] in n or n.split('/')[0].strip() in body(l) for n in names)]
    if same:
        still = True
        print('obligations that still fail:')
        for l in same:
            print('  ' + l[:300])
    elif p.returncode == 1:
        still = True
        print('the recorded obligations verify now, but the check reports other failed obligations for %s' % pid)
    else:
        print('the recorded obligations are discharged on the current tree (check exit %d)' % p.returncode)
    if still:
        print('VIOLATION property=%s replay=%s' % (pid, path))
        return 1
    return 0
