#!/bin/sh
# usage: mut.sh <file> <sed-expr> <prop>...   : apply sed to a scratch copy of the sources and run checks
set -e
D=$(mktemp -d /var/tmp/mut-XXXXXX)
mkdir -p $D/embedded-cli $D/embedded-cli-macros
cp -r /repo/embedded-cli/src $D/embedded-cli/src; cp -r /repo/embedded-cli-macros/src $D/embedded-cli-macros/src
sed -i "$2" $D/embedded-cli/src/$1
if diff -q $D/embedded-cli/src/$1 /repo/embedded-cli/src/$1 >/dev/null; then echo "sed made no change"; rm -rf $D; exit 3; fi
shift 2
for p in "$@"; do VERIF_REPO_SRC=$D/embedded-cli/src /verif/bin/check $p 2>/dev/null | tail -3; done
rm -rf $D
