#!/bin/sh
# usage: mut.sh <file> <sed-expr> <prop>...   : apply sed to a scratch copy of the sources and run checks
set -e
D=$(mktemp -d /var/tmp/mut-XXXXXX)
cp -r /repo/embedded-cli/src $D/src
sed -i "$2" $D/src/$1
if diff -q $D/src/$1 /repo/embedded-cli/src/$1 >/dev/null; then echo "sed made no change"; rm -rf $D; exit 3; fi
shift 2
for p in "$@"; do VERIF_REPO_SRC=$D/src /verif/bin/check $p | tail -2; done
rm -rf $D
