"""Minimal Rust lexer used by the mirror extractor.

Produces (kind, text, start, end) tuples over a source string.  Kinds:
  'ws' whitespace, 'lc' line comment, 'bc' block comment, 'str' string/byte-string/raw-string literal,
  'chr' char / byte literal, 'lt' lifetime, 'num' number, 'id' identifier/keyword, 'p' punctuation (1 char,
  except '->', '=>', '::', '..=', '..' which are kept whole so that '>' of '->' is never mistaken for a
  closing angle bracket).
Only what the extractor needs: correct skipping of comments / literals and bracket matching.
"""
import re

_ID = re.compile(r'[A-Za-z_][A-Za-z0-9_]*')
_NUM = re.compile(r'[0-9][0-9A-Za-z_]*(\.[0-9][0-9A-Za-z_]*)?')
_WS = re.compile(r'\s+')
_MULTI = ['..=', '->', '=>', '::', '..']


class LexError(Exception):
    pass


def lex(src):
    toks = []
    i = 0
    n = len(src)
    while i < n:
        c = src[i]
        m = _WS.match(src, i)
        if m:
            toks.append(('ws', m.group(0), i, m.end()))
            i = m.end()
            continue
        if src.startswith('//', i):
            j = src.find('\n', i)
            if j < 0:
                j = n
            toks.append(('lc', src[i:j], i, j))
            i = j
            continue
        if src.startswith('/*', i):
            depth = 1
            j = i + 2
            while j < n and depth > 0:
                if src.startswith('/*', j):
                    depth += 1
                    j += 2
                elif src.startswith('*/', j):
                    depth -= 1
                    j += 2
                else:
                    j += 1
            if depth != 0:
                raise LexError('unterminated block comment at %d' % i)
            toks.append(('bc', src[i:j], i, j))
            i = j
            continue
        # raw strings r"..", r#".."#, br#".."#
        m = re.match(r'b?r(#*)"', src[i:i + 40])
        if m:
            hashes = m.group(1)
            endpat = '"' + hashes
            j = src.find(endpat, i + len(m.group(0)))
            if j < 0:
                raise LexError('unterminated raw string at %d' % i)
            j += len(endpat)
            toks.append(('str', src[i:j], i, j))
            i = j
            continue
        if c == '"' or (c == 'b' and src.startswith('b"', i)):
            j = i + (2 if c == 'b' else 1)
            while j < n and src[j] != '"':
                if src[j] == '\\':
                    j += 2
                else:
                    j += 1
            if j >= n:
                raise LexError('unterminated string at %d' % i)
            j += 1
            toks.append(('str', src[i:j], i, j))
            i = j
            continue
        if c == "'" or (c == 'b' and src.startswith("b'", i)):
            k = i + (1 if c == 'b' else 0)
            # char literal or lifetime
            m = re.match(r"'(\\x[0-9a-fA-F]{2}|\\u\{[0-9a-fA-F_]+\}|\\.|[^\\'])'", src[k:k + 16])
            if m:
                j = k + len(m.group(0))
                toks.append(('chr', src[i:j], i, j))
                i = j
                continue
            m = re.match(r"'[A-Za-z_][A-Za-z0-9_]*", src[k:k + 64])
            if m and c == "'":
                j = k + len(m.group(0))
                toks.append(('lt', src[i:j], i, j))
                i = j
                continue
            raise LexError('bad quote at %d' % i)
        m = _ID.match(src, i)
        if m:
            toks.append(('id', m.group(0), i, m.end()))
            i = m.end()
            continue
        m = _NUM.match(src, i)
        if m:
            # do not swallow '..' of a range: "0..n"
            t = m.group(0)
            if '.' in t and src.startswith('..', i + t.index('.')):
                t = t[:t.index('.')]
            toks.append(('num', t, i, i + len(t)))
            i += len(t)
            continue
        for mm in _MULTI:
            if src.startswith(mm, i):
                toks.append(('p', mm, i, i + len(mm)))
                i += len(mm)
                break
        else:
            toks.append(('p', c, i, i + 1))
            i += 1
    return toks


def code_tokens(toks):
    """indices of tokens that are not whitespace / comments"""
    return [k for k, t in enumerate(toks) if t[0] not in ('ws', 'lc', 'bc')]


OPEN = {'(': ')', '[': ']', '{': '}'}
CLOSE = {')': '(', ']': '[', '}': '{'}


def match_brackets(toks):
    """map index of opening bracket token -> index of closing token (and back)"""
    stack = []
    pairs = {}
    for k, t in enumerate(toks):
        if t[0] != 'p':
            continue
        if t[1] in OPEN:
            stack.append(k)
        elif t[1] in CLOSE:
            if not stack or toks[stack[-1]][1] != CLOSE[t[1]]:
                raise LexError('unbalanced %r at offset %d' % (t[1], t[2]))
            o = stack.pop()
            pairs[o] = k
            pairs[k] = o
    if stack:
        raise LexError('unclosed bracket at offset %d' % toks[stack[-1]][2])
    return pairs
