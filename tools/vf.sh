#!/bin/bash
# vf.sh <module> [function]  : mirror + verify one module / function, show errors only
cd /verif && python3 tools/mirror.py --out /var/tmp/m.rs 2>&1 | grep -v "^wrote"
cd /var/tmp
if [ -n "$2" ]; then A="--verify-only-module $1 --verify-function $2"; else A="--verify-module $1"; fi
verus m.rs $A --triggers-mode silent --multiple-errors 8 2>&1 | grep -v "^note\|^warning" | grep -E -A22 "^error" | grep -v "^--$" | head -${3:-90}
verus m.rs $A --triggers-mode silent 2>&1 | grep "verification results"
