#!/usr/bin/env python3
"""Generate MANIFEST.json from props.json (claimed checks) and na.json (not applicable / not yet claimed)."""
import json, os
V = os.path.dirname(os.path.dirname(os.path.abspath(__file__)))
props = json.load(open(os.path.join(V, 'props.json')))
na = json.load(open(os.path.join(V, 'na.json')))
hooks = json.load(open(os.path.join(V, 'hooks.json')))
checks = []
for pid in sorted(props):
    c = props[pid]
    if not c.get('claimed', True):
        continue
    checks.append({
        'property_id': pid,
        'quick_cmd': 'bin/check %s --tier quick' % pid,
        'thorough_cmd': 'bin/check %s --tier thorough' % pid,
        'evidence_file': '/verif/evidence/%s.json' % pid,
        'replay_cmd_template': 'bin/check %s --replay {path}' % pid,
        'engine': 'verus-mirror',
        'level_claimed': {'category': 'proof', 'text': c['level_text'], 'design_ref': c.get('design_ref', 'DESIGN.md section 5 ' + pid)},
        'level_note': c['level_note'],
        'technique': c.get('technique', 'contract-based deductive verification (Verus) of the mirrored real source'),
    })
allids = ['C%02d' % i for i in range(1, 18)]
claimed = set(c['property_id'] for c in checks)
not_app = []
for i in allids:
    if i in claimed:
        continue
    not_app.append({'property_id': i, 'reason': na.get(i, 'check not built yet (work in progress)')})
m = {
    'version': 1,
    'setup_cmd': 'python3 tools/selfcheck.py',
    'hooks': hooks,
    'engines': [{'name': 'verus-mirror', 'path': 'tools/check.py', 'serves_properties': sorted(claimed),
                 'kind_free_text': 'mechanical extraction of /repo/embedded-cli/src into one Verus file (real text + //@ contract lines), verified function by function by Verus/Z3'}],
    'checks': checks,
    'notes': open(os.path.join(V, 'manifest_notes.txt')).read().strip(),
    'not_applicable': not_app,
}
json.dump(m, open(os.path.join(V, 'MANIFEST.json'), 'w'), indent=1)
print('checks:', sorted(claimed), 'not_applicable:', [x['property_id'] for x in not_app])
