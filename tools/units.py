#!/usr/bin/env python3
"""Maintain units.json: the manifest of functions under contract.
  units.py --sync   add functions found in the mirror (props = clause tags found in the function + C03 for exec
                    functions); existing entries keep manual additions in "extra_props".
A function of a mirrored module that is missing from units.json makes every check exit 2 (new code not under contract)."""
import json, os, sys, re
HERE = os.path.dirname(os.path.abspath(__file__))
sys.path.insert(0, HERE)
import mirror, check

def main():
    p = os.path.join(os.path.dirname(HERE), 'units.json')
    units = json.load(open(p)) if os.path.exists(p) else {}
    text, lm, info = mirror.build()
    lines = text.split('\n')
    tags = check.line_tags(text)
    seen = set()
    for f in check.function_spans(text):
        if f['name'].startswith('verif_specs') or f['module'] == '':
            continue
        seen.add(f['name'])
        props = set()
        direct = set()
        for no in range(f['start'], f['end'] + 1):
            for t in tags.get(no, []):
                props.add(t.lstrip('~'))
                if not t.startswith('~'):
                    direct.add(t)
        hdr = ' '.join(lines[f['start'] - 1: f['start'] + 2])
        is_spec = bool(re.search(r'\b(spec|proof)\s+fn\b', ' '.join(lines[max(0, f['start'] - 2): f['start']])))
        ext = 'external_body' in ' '.join(lines[max(0, f['start'] - 4): f['start']])
        status = 'spec' if is_spec else ('external_body' if ext else 'verify')
        if status != 'spec':
            props.add('C03')
            direct.add('C03')
        e = units.get(f['name'], {})
        e['status'] = status
        e['props'] = sorted(props | set(e.get('extra_props', [])))
        e['direct'] = sorted(direct | set(e.get('extra_props', [])))
        units[f['name']] = e
    for k in list(units):
        if k not in seen:
            del units[k]
    json.dump(units, open(p, 'w'), indent=1, sort_keys=True)
    print('units:', len(units))

if __name__ == '__main__':
    main()
