"""Desugaring catalogue: mechanical, site-listed rewrites of idioms Verus' front end rejects.

Every rule is (id, module, regex, replacement, expected_count, justification).  A rule whose pattern no longer
matches the expected number of times raises Undecided (exit 2: the source moved out of the verified subset),
never an alarm.  Every application is logged (file, line, before, after) into the evidence.
Each rewrite is semantics-preserving by the definition of the std item involved (stated in `why`).
"""
import re


class DesugarMismatch(Exception):
    pass


RULES = []


def rule(rid, module, pattern, repl, count, why, flags=re.M):
    RULES.append({'id': rid, 'module': module, 'pat': re.compile(pattern, flags), 'repl': repl, 'count': count,
                  'why': why})


# ---- all modules: external crates are replaced by the dependency models in specs/ ------------------
rule('X6', '*', r'^use embedded_io::', 'use crate::verif_specs::embedded_io::', None,
     'embedded_io traits replaced by the ghost-sink model (specs/10_deps_model.rs)')
rule('X6', '*', r'^use ufmt::uWrite;\n', '', None, 'ufmt glue impl is not mirrored')
rule('X6', '*', r'(?<!verif_specs::)\bembedded_io::Error\b', 'crate::verif_specs::embedded_io::Error', None,
     'embedded_io traits replaced by the ghost-sink model')

# ---- utils ------------------------------------------------------------------------------------------
rule('D1', 'utils', r'^([ \t]*)for &(\w+) in (\w+)\.as_bytes\(\) \{\n',
     r'\1for __i in 0..\3.as_bytes().len() {\n\1    let \2 = \3.as_bytes()[__i];\n', 2,
     'iteration over a slice by reference pattern == indexed iteration over 0..len (definition of slice::Iter)')
rule('D2', 'utils',
     r'^([ \t]*)for \(&(\w+), &(\w+)\) in (\w+)\.as_bytes\(\)\.iter\(\)\.zip\((\w+)\.as_bytes\(\)\.iter\(\)\) \{\n',
     r'\1for __i in 0..(if \4.as_bytes().len() < \5.as_bytes().len() { \4.as_bytes().len() } else { \5.as_bytes().len() }) {\n'
     r'\1    let \2 = \4.as_bytes()[__i]; let \3 = \5.as_bytes()[__i];\n', 1,
     'zip of two slice iterators == indexed iteration up to the shorter length (definition of Zip)')
rule('D3', 'utils', r'input\.as_bytes\(\)\.iter\(\)\.position\(\|b\| \*b != b\' \'\)',
     "crate::verif_specs::position_ne(input.as_bytes(), b' ')", 1,
     'Iterator::position with an inequality predicate == first index whose element differs (shim contract)')

# ---- codes ------------------------------------------------------------------------------------------
rule('D15', 'codes', r'^pub const (\w+): &(str|\[u8\]) =', r"pub const \1: &'static \2 =", 6,
     "the elided lifetime of a reference in a const item is 'static by definition; Verus wants it written")



def _bytes_const(m):
    import ast
    val = ast.literal_eval('b"' + m.group(2) + '"')
    seq = ', '.join('0x%02Xu8' % b for b in val)
    return ('#[verifier::external_body] pub exec const %s: &\'static [u8] ensures %s@ == seq![%s] { b"%s" }'
            % (m.group(1), m.group(1), seq, m.group(2)))


rule('D16', 'codes', r'^pub const (\w+): &\'static \[u8\] = b"([^"]*)";', _bytes_const, 5,
     'Verus does not interpret byte-string literals: the const becomes an exec const whose ensures lists the '
     'bytes of the literal, generated from the literal text on every run (trusted: literal decoding)')

# ---- utf8 -------------------------------------------------------------------------------------------
rule('D14', 'utf8', r'#\[derive\(Debug, Default\)\]\npub struct Utf8Accum \{',
     '#[derive(Debug)]\npub struct Utf8Accum {', 1,
     'derived Default gets no Verus spec: replaced by the field-wise impl it expands to (next rule)')
rule('D14', 'utf8', r'\nimpl Utf8Accum \{\n',
     '\nimpl Default for Utf8Accum {\n    fn default() -> Self {\n        Utf8Accum { buffer: [0; 4], expected: 0, partial: 0 }\n    }\n}\n\nimpl Utf8Accum {\n', 1,
     '#[derive(Default)] expands to a field-wise Default::default(): [0;4], 0, 0')

# ---- input ------------------------------------------------------------------------------------------
rule('D8', 'input', r'^use bitflags::bitflags;\n', '', 1, 'bitflags macro replaced by the Flags model')
rule('D8', 'input', r'^bitflags! \{\n    #\[derive\(Debug\)\]\n    struct Flags: u8 \{\n        const CSI_STARTED = 1;\n    \}\n\}\n',
     'use crate::verif_specs::Flags; // bitflags! { struct Flags: u8 { const CSI_STARTED = 1; } } (model, rule D8)\n', 1,
     'bitflags! is a macro Verus cannot expand into verifiable code: empty/contains/set are modelled on a u8 bit '
     'set in specs/10_deps_model.rs (verified bit-level bodies; the correspondence with the macro is trusted)')
rule('D4', 'input', r'self\.process_csi\(byte\)\.map\(Input::Control\)',
     'match self.process_csi(byte) { Some(__c) => Some(Input::Control(__c)), None => None }', 1,
     'Option::map with a constructor path == match (definition of Option::map)')
rule('D4', 'input', r'return self\.utf8\.push_byte\(byte\)\.map\(Input::Char\)',
     'return match self.utf8.push_byte(byte) { Some(__c) => Some(Input::Char(__c)), None => None }', 1,
     'Option::map with a constructor path == match (definition of Option::map)')

# ---- token ------------------------------------------------------------------------------------------
rule('D11', 'token', r'#\[derive\(Clone, Debug, Eq, PartialEq\)\]\npub struct Tokens<\'a> \{\n    empty: bool,\n    tokens: &\'a str,\n\}\n',
     "#[derive(Debug, Eq, PartialEq)]\npub struct Tokens<'a> {\n    empty: bool,\n    tokens: &'a str,\n}\n\n"
     "impl<'a> Clone for Tokens<'a> {\n    fn clone(&self) -> Self {\n        Tokens { empty: self.empty, tokens: self.tokens }\n    }\n}\n", 1,
     'derived Clone gets no Verus spec: replaced by the field-wise impl #[derive(Clone)] expands to')
rule('D11', 'token', r'#\[derive\(Clone, Debug\)\]\npub struct TokensIter<\'a> \{\n    tokens: &\'a str,\n    empty: bool,\n\}\n',
     "#[derive(Debug)]\npub struct TokensIter<'a> {\n    tokens: &'a str,\n    empty: bool,\n}\n\n"
     "impl<'a> Clone for TokensIter<'a> {\n    fn clone(&self) -> Self {\n        TokensIter { tokens: self.tokens, empty: self.empty }\n    }\n}\n", 1,
     'derived Clone gets no Verus spec: replaced by the field-wise impl #[derive(Clone)] expands to')
rule('D7', 'token', r"impl<'a> Iterator for TokensIter<'a> \{\n    type Item = &'a str;\n\n    fn next\(&mut self\) -> Option<Self::Item> \{",
     "impl<'a> TokensIter<'a> {\n    pub fn next(&mut self) -> Option<&'a str> {", 1,
     'impl Iterator drags in vstd\'s prophetic iterator laws: `next` is verified as an inherent method with the same body')
rule('D3', 'token', r'self\.tokens\.as_bytes\(\)\.iter\(\)\.position\(\|&b\| b == 0\)',
     'crate::verif_specs::position_eq(self.tokens.as_bytes(), 0)', 1,
     'Iterator::position with an equality predicate == first index holding the value (shim contract)')

# ---- arguments --------------------------------------------------------------------------------------
rule('D12', 'arguments', r"#\[derive\(Debug, Eq, PartialEq\)\]\npub enum Arg<'a> \{",
     "#[derive(Debug, Eq)]\npub enum Arg<'a> {", 1,
     'derived PartialEq over &str payloads gets no Verus spec: replaced by the variant-wise impl it expands to (next rule)')
rule('D12', 'arguments', r"\n#\[derive\(Clone, Debug, Eq\)\]\npub struct ArgList<'a> \{\n    tokens: Tokens<'a>,\n\}\n",
     "\nimpl<'a> PartialEq for Arg<'a> {\n    fn eq(&self, other: &Self) -> bool {\n        match (self, other) {\n"
     "            (Arg::DoubleDash, Arg::DoubleDash) => true,\n            (Arg::LongOption(x), Arg::LongOption(y)) => *x == *y,\n"
     "            (Arg::ShortOption(x), Arg::ShortOption(y)) => *x == *y,\n            (Arg::Value(x), Arg::Value(y)) => *x == *y,\n"
     "            _ => false,\n        }\n    }\n}\n"
     "\n#[derive(Debug, Eq)]\npub struct ArgList<'a> {\n    tokens: Tokens<'a>,\n}\n\n"
     "impl<'a> Clone for ArgList<'a> {\n    fn clone(&self) -> Self {\n        ArgList { tokens: self.tokens.clone() }\n    }\n}\n", 1,
     '#[derive(PartialEq)] on an enum expands to variant-wise comparison; #[derive(Clone)] to field-wise clone')
rule('D7', 'arguments', r"impl<'a> Iterator for ArgsIter<'a> \{\n    type Item = Arg<'a>;\n\n    fn next\(&mut self\) -> Option<Self::Item> \{",
     "impl<'a> ArgsIter<'a> {\n    pub fn next(&mut self) -> Option<Arg<'a>> {", 1,
     'impl Iterator drags in vstd\'s prophetic iterator laws: `next` is verified as an inherent method with the same body')
rule('X7', 'arguments', r"    fn eq\(&self, other: &Self\) -> bool \{\n        self\.args\(\)\.eq\(other\.args\(\)\)\n    \}",
     "    #[verifier::external_body]\n    fn eq(&self, other: &Self) -> bool {\n        unimplemented!() // NOT MIRRORED: self.args().eq(other.args())\n    }", 1,
     'NOT MIRRORED: PartialEq for ArgList compares two ArgsIter with Iterator::eq (ArgsIter is no Iterator in the '
     'mirror, D7); the impl is only used by tests and derived PartialEq of RawCommand; body hidden, no contract')
rule('X7', 'arguments', r"macro_rules! impl_arg_fromstr \{.*?\n\}\n\nimpl_arg_fromstr! \{[^}]*\}\n", '', 1,
     'NOT MIRRORED: FromArgument impls for char/bool/integers/floats (one-line str::parse wrappers generated by a '
     'macro_rules!); only derive output calls them', flags=re.M | re.S)

# ---- history ----------------------------------------------------------------------------------------
_HSL = r'(self\.buffer\.as_slice\(\)\[[^\]\n]*\])'
rule('D3', 'history', _HSL + r'\s*\.iter\(\)\s*\.rev\(\)\s*\.position\(\|b\| b == &0\)\s*\.map\(\|pos\| ([^)\n]*)\)\s*\.unwrap_or\(0\)',
     r'(match crate::verif_specs::rposition_eq(&\1, 0) { Some(pos) => \2, None => 0 })', 1,
     'iter().rev().position(==) == distance of the last match from the end (shim contract); Option::map(closure).unwrap_or(0) == match')
rule('D3', 'history', _HSL + r'\s*\.iter\(\)\s*\.position\(\|b\| b == &0\)\s*\.map\(\|pos\| ([^)\n]*)\)',
     r'(match crate::verif_specs::position_eq(&\1, 0) { Some(pos) => Some(\2), None => None })', 1,
     'iter().position(==) == first index holding the value (shim contract); Option::map(closure) == match')
rule('D3', 'history', _HSL + r'\s*\.iter\(\)\s*\.position\(\|b\| b == &0\)',
     r'crate::verif_specs::position_eq(&\1, 0)', 2,
     'iter().position(==) == first index holding the value (shim contract)')
rule('D13', 'history', r'Some\(cursor\) if cursor > 0 => cursor,\n(\s*)None if self\.used > 0 => self\.used,\n\s*_ => return None,',
     r'Some(cursor) => if cursor > 0 { cursor } else { return None },\n\1None => if self.used > 0 { self.used } else { return None },', 1,
     'match guards followed by a `return` arm lose the resolution of final(self) in Verus (tool limitation, '
     'design-probes/probe_match_guard_return_limitation.rs): guards moved into the arms, same control flow')
rule('D3', 'history', r'text\.as_bytes\(\)\.contains\(&0\)', 'crate::verif_specs::contains_byte(text.as_bytes(), 0)', 1,
     'slice::contains == existence of an equal element (shim contract)')

# ---- autocomplete -----------------------------------------------------------------------------------
rule('D11', 'autocomplete', r"#\[derive\(Clone, Debug\)\]\n#\[non_exhaustive\]\npub enum Request<'a> \{\n(.*?)\n\}\n",
     r"#[derive(Debug)]\n#[non_exhaustive]\npub enum Request<'a> {\n\1\n}\n\n"
     "impl<'a> Clone for Request<'a> {\n    fn clone(&self) -> Self {\n        match self {\n            Request::CommandName(name) => Request::CommandName(name),\n        }\n    }\n}\n", 1,
     'derived Clone gets no Verus spec: replaced by the variant-wise impl #[derive(Clone)] expands to', flags=re.M | re.S)
rule('D3', 'autocomplete', r"input\.contains\(' '\)", "crate::verif_specs::contains_byte(input.as_bytes(), b' ')", 1,
     "str::contains(' ') == the byte 0x20 occurs: in UTF-8 an ASCII scalar is encoded as itself and never occurs "
     'inside a multi-byte sequence (shim contract on bytes)')
rule('D4', 'autocomplete', r'self\.autocompleted\.map\(\|len\| \{\n(.*?)\n        \}\)',
     r'match self.autocompleted { Some(len) => Some({\n\1\n        }), None => None }', 1,
     'Option::map(closure) == match (definition of Option::map); the closure builds a &str with an unchecked constructor',
     flags=re.M | re.S)

# ---- editor -----------------------------------------------------------------------------------------
rule('D3', 'editor', r"right\s*\.iter\(\)\s*\.rev\(\)\s*\.position\(\|&b\| b != b' '\)\s*\.unwrap_or\(right\.len\(\)\)",
     "crate::verif_specs::rposition_ne(right, b' ').unwrap_or(right.len())", 1,
     'iter().rev().position(!=) == number of trailing elements equal to the value (shim contract)')
rule('D4', 'editor', r'utils::char_byte_index\(text, (\w+)\)\.map\(\|s\| s \+ (\w+)\)',
     r'(match utils::char_byte_index(text, \1) { Some(s) => Some(s + \2), None => None })', 2,
     'Option::map(closure) == match (definition of Option::map)')
rule('D17', 'editor', r'pub fn text_range\(&self, range: impl RangeBounds<usize>\) -> &str \{',
     'pub fn text_range(&self, range: core::ops::RangeFrom<usize>) -> &str {', 1,
     'monomorphisation: text_range is generic over RangeBounds<usize>, for which vstd has no generic spec; it is '
     'verified at RangeFrom<usize>, the only instantiation in the crate (cli.rs: editor.text_range(initial_cursor..)); '
     'the other match arms are then dead code')
rule('X7', 'autocomplete', r"#\[derive\(Debug\)\]\npub struct Autocompletion<'a> \{", "pub struct Autocompletion<'a> {", 1,
     'NOT MIRRORED: derived Debug of Autocompletion (the mirror adds an erased ghost field, which has no Debug impl)')
rule('X8', 'autocomplete', r"pub struct Autocompletion<'a> \{\n    autocompleted: Option<usize>,\n    buffer: &'a mut \[u8\],\n    partial: bool,\n\}",
     "pub struct Autocompletion<'a> {\n    pub autocompleted: Option<usize>,\n    pub buffer: &'a mut [u8],\n    pub partial: bool,\n}", 1,
     'visibility only: the fields are made public in the mirror (Verus treats a struct with any private field as '
     'opaque) so that the spec accessors buf()/fin() can be open and the resolution of the mutable borrow '
     '(final == current when the value is dropped) is visible to the calling module; no effect on behaviour')

# ---- writer -----------------------------------------------------------------------------------------
rule('X7', 'writer', r"impl<W: Write<Error = E>, E: Error> uWrite for Writer<'_, W, E> \{.*?\n\}\n\n", '', 1,
     'NOT MIRRORED: ufmt::uWrite glue impl (write_str delegates to Writer::write_str)', flags=re.M | re.S)
rule('X7', 'writer', r"impl<W: Write<Error = E>, E: Error> core::fmt::Write for Writer<'_, W, E> \{.*?\n\}\n\n", '', 1,
     'NOT MIRRORED: core::fmt::Write glue impl (write_str delegates to Writer::write_str, mapping the error to fmt::Error)',
     flags=re.M | re.S)
rule('X7', 'writer', r"impl Write for EmptyWriter \{.*?\n\}\n", '', 1,
     'NOT MIRRORED: the discarding sink EmptyWriter (its Write impl keeps no history, so the call-log model of the '
     'sink does not apply to it); nothing in the mirrored code writes to it', flags=re.M | re.S)
rule('X8', 'writer', r"pub struct Writer<'a, W: Write<Error = E>, E: Error> \{\n    last_bytes: \[u8; 2\],\n    dirty: bool,\n    writer: &'a mut W,\n\}",
     "pub struct Writer<'a, W: Write<Error = E>, E: Error> {\n    pub last_bytes: [u8; 2],\n    pub dirty: bool,\n    pub writer: &'a mut W,\n}", 1,
     'visibility only (see X8 for Autocompletion): fields public in the mirror so that the borrow resolution of the '
     'wrapped sink is visible to cli.rs')
rule('D3', 'writer', r'text\.as_bytes\(\)\.iter\(\)\.position\(\|&b\| b == codes::LINE_FEED\)',
     'crate::verif_specs::position_eq(text.as_bytes(), codes::LINE_FEED)', 1,
     'Iterator::position with an equality predicate == first index holding the value (shim contract)')
rule('D10', 'writer', r'for _ in 0\.\.longest_name - name\.len\(\) \{', 'for _i in 0..longest_name - name.len() {', 1,
     'anonymous loop variable named (Verus rejects `_` here)')
# ---- builder ----------------------------------------------------------------------------------------
rule('D15', 'builder', r'^pub const (\w+): &str =', r"pub const \1: &'static str =", 1,
     "the elided lifetime of a reference in a const item is 'static by definition; Verus wants it written")
rule('X7', 'builder', r"impl Default\n    for CliBuilder<EmptyWriter, Infallible, \[u8; DEFAULT_CMD_LEN\], \[u8; DEFAULT_HISTORY_LEN\]>\n\{.*?\n\}\n", '', 1,
     'NOT MIRRORED: Default for CliBuilder (struct literal with EmptyWriter, whose Write impl is not mirrored)',
     flags=re.M | re.S)

# ---- help -------------------------------------------------------------------------------------------
rule('D6', 'help', r"(?<=if )([\w\.\(\)\s]+?)\s*\.any\(\|arg\| arg == Arg::LongOption\(\"help\"\) \|\| arg == Arg::ShortOption\('h'\)\)",
     r'{\n            let mut __it = \1;\n            let mut __found = false;\n            loop {\n                match __it.next() {\n'
     '                    Some(arg) => {\n                        if arg == Arg::LongOption("help") || arg == Arg::ShortOption(\'h\') {\n'
     '                            __found = true;\n                            break;\n                        }\n                    }\n'
     '                    None => {\n                        break;\n                    }\n                }\n            }\n            __found\n        }', 1,
     'Iterator::any(pred) on an ArgsIter == loop over next() that stops at the first element satisfying pred '
     '(definition of any); ArgsIter is not an Iterator in the mirror (D7)')

# ---- command ----------------------------------------------------------------------------------------
rule('D11', 'command', r"#\[derive\(Clone, Debug, Eq, PartialEq\)\]\npub struct RawCommand<'a> \{(.*?)\n\}\n",
     r"#[derive(Debug, Eq, PartialEq)]\npub struct RawCommand<'a> {\1\n}\n\n"
     "impl<'a> Clone for RawCommand<'a> {\n    fn clone(&self) -> Self {\n        RawCommand { name: self.name, args: self.args.clone() }\n    }\n}\n", 1,
     'derived Clone gets no Verus spec: replaced by the field-wise impl #[derive(Clone)] expands to', flags=re.M | re.S)
rule('X7', 'command', r"\n    pub fn processor<.*?\n    \}\n\}\n\nimpl Autocomplete for RawCommand", "\n}\n\nimpl Autocomplete for RawCommand", 1,
     'NOT MIRRORED: RawCommand::processor (adapter wrapping a user closure into a CommandProcessor; it declares a '
     'struct and an impl inside the function body, which Verus does not support)', flags=re.M | re.S)
_cnt = [0]


def _named_param(m):
    _cnt[0] += 1
    return '%s_p%d: ' % (m.group(1), _cnt[0])


rule('D10', 'command', r'([(\s])_: ', _named_param, 6,
     'anonymous function parameters `_: T` named (Verus wants plain identifier patterns); the parameters are unused')
# ---- service ----------------------------------------------------------------------------------------
rule('X7', 'service', r"impl<W, E, F> CommandProcessor<W, E> for F\nwhere.*?\n\}\n", '', 1,
     'NOT MIRRORED: blanket impl of CommandProcessor for closures (one-line call of the closure); a closure cannot '
     'carry the ghost call log the trait contract is stated over', flags=re.M | re.S)
# ---- cli --------------------------------------------------------------------------------------------
rule('X8', 'cli', r"    new_prompt: Option<&'static str>,\n    writer: Writer<'a, W, E>,\n\}",
     "    pub new_prompt: Option<&'static str>,\n    pub writer: Writer<'a, W, E>,\n}", 1,
     'visibility only (see X8 for Autocompletion): CliHandle fields public in the mirror so that contracts of its '
     'public methods and of CommandProcessor::process can speak about the wrapped Writer')
rule('D10', 'cli', r"editor\.autocompletion\(\|request, autocompletion\| \{",
     "editor.autocompletion(|request: Request<'_>, autocompletion: &mut Autocompletion<'_>| {", 1,
     'closure parameters annotated with the types the callee signature gives them (needed to attach a closure contract)')
rule('X6', 'cli', r"^use crate::autocomplete::Request;", "use crate::autocomplete::{Autocompletion, Request};", 1,
     'import of the type named in the closure parameter annotation')
rule('D13', 'cli', r"NavigateInput::Backward if ([^\n]*?) => \{\n(\s*)([^\n]*)\n(\s*)\}\n\s*NavigateInput::Forward if ([^\n]*?) => \{\n\s*([^\n]*)\n\s*\}\n\s*_ => return Ok\(\(\)\),",
     r"NavigateInput::Backward => if \1 {\n\2\3\n\4} else { return Ok(()) },\n\4NavigateInput::Forward => if \5 {\n\2\6\n\4} else { return Ok(()) },", 1,
     'match guards followed by a `return` arm lose the resolution of final(..) in Verus (tool limitation, see D13 '
     'for history): guards moved into the arms, same control flow (guards and the one-statement arm bodies are '
     'copied verbatim)')
rule('D9', 'cli', r'debug_assert_eq!\(c\.chars\(\)\.count\(\), 1\);', 'proof { assert(c@.len() == 1); }', 1,
     'debug_assert_eq! on the number of chars becomes a proof obligation (it must hold in release builds too)')
rule('D3', 'cli', r'"help"\.starts_with\(name\)', 'crate::verif_specs::str_starts_with("help", name)', 1,
     'str::starts_with(&str) == byte-prefix test (shim contract; UTF-8 prefix of well-formed text at a boundary)')
rule('D5', 'cli', r'let result = input_generator\n\s*\.accept\(b\)\n\s*\.map\(\|input\| match input \{\n(.*?)\n\s*\}\)\n\s*\.unwrap_or\(Ok\(\(\)\)\);',
     r'let result = match input_generator.accept(b) {\n                Some(input) => match input {\n\1\n                },\n                None => Ok(()),\n            };', 1,
     'Option::map(closure).unwrap_or(Ok(())) == match (definitions of map / unwrap_or); the closure captures &mut self',
     flags=re.M | re.S)
rule('D10', 'cli', r'for _ in ([^\n{]*?) \{', r'for _i in \1 {', 1,
     'anonymous loop variable named (Verus rejects `_` here)')
rule('X9', 'cli', r'(\n\s*)_ => \{\}(\n\s*\}\n\s*\}\);)', r'\1_ => {\1}\2', 1,
     'whitespace only: the empty block of the `_` arm in the completion closure is written over two lines so that a '
     'ghost proof block can be spliced into it')
rule('D10', 'cli', r'C::command_help\(&mut \|_\| Ok\(\(\)\), command\.clone\(\), &mut writer\)',
     'C::command_help(&mut |_p: &mut Writer<\'_, W, E>| -> (r: Result<(), E>) ensures r is Ok, *final(_p) == *old(_p) { Ok(()) }, command.clone(), &mut writer)', 1,
     'closure parameter `_` named and typed; the closure contract (returns Ok, touches nothing) is spliced with it')

# ---- tmpl_autocomplete (code emitted by #[derive(Command)], see tools/template.py) --------------------
def _iter_chain(m):
    """NAMES.iter()[.skip_while(|n| S)][.take_while(|n| T)][.filter(|n| F)].for_each(|n| { BODY });  ->  index loop.
    By the definitions of the adapters: skip_while drops elements while S holds (phase 0) and passes everything
    from the first element on which S fails; take_while passes elements while T holds and ends the iteration
    at the first one on which it fails; filter passes the elements on which F holds; for_each runs BODY on
    every element that got through, in order."""
    ind = m.group(1)
    adapters = re.findall(r'\.(skip_while|take_while|filter)\(\|n\| ([^\n]*)\)\n', m.group(2))
    body = m.group(3)
    kinds = [a[0] for a in adapters]
    if kinds != sorted(kinds, key=['skip_while', 'take_while', 'filter'].index) or len(set(kinds)) != len(kinds):
        raise DesugarMismatch('tmpl_autocomplete: adapter chain %s is not in the catalogue' % kinds)
    conds = dict(adapters)
    out = []
    i1 = ind + '    '
    if 'skip_while' in conds:
        out.append(ind + 'let mut __skipping = true;')
    if 'take_while' in conds:
        out.append(ind + 'let mut __taking = true;')
    out.append(ind + 'for __i in 0..NAMES.len() {')
    out.append(i1 + 'let n = &NAMES[__i];')
    guard = []
    if 'skip_while' in conds:
        out.append(i1 + 'if __skipping && !(%s) { __skipping = false; }' % conds['skip_while'])
        guard.append('!__skipping')
    if 'take_while' in conds:
        pre = ' && '.join(guard + ['__taking'])
        out.append(i1 + 'if %s && !(%s) { __taking = false; }' % (pre, conds['take_while']))
        guard.append('__taking')
    if 'filter' in conds:
        guard.append('(%s)' % conds['filter'])
    out.append(i1 + 'if %s {' % (' && '.join(guard) if guard else 'true'))
    for l in body.split('\n'):
        out.append(l)
    out.append(i1 + '}')
    out.append(ind + '}')
    return '\n'.join(out)


rule('D18', 'tmpl_autocomplete',
     r'^([ \t]*)NAMES\n\s*\.iter\(\)\n((?:\s*\.(?:skip_while|take_while|filter)\(\|n\| [^\n]*\)\n)*)\s*\.for_each\(\|n\| \{\n(.*?)\n\s*\}\);',
     _iter_chain, 1,
     'iterator adapter chain over a slice ending in for_each == index loop with the adapters\' state made explicit '
     '(definitions of Iterator::skip_while / take_while / filter / for_each)', flags=re.M | re.S)
rule('D3', 'tmpl_autocomplete', r'\bn\.starts_with\(name\)', 'crate::verif_specs::str_starts_with(n, name)', None,
     'str::starts_with(&str) == byte-prefix test (shim contract)')

# ---- tmpl_group_help (code emitted by #[derive(CommandGroup)] for Help) ---------------------------------
rule('D19', 'tmpl_group_help', r'^([ \t]*)(\S[^\n]*)\n[ \t]*\.or_else\(\|(\w+)\| (.*)\)\?;(\n\s*Ok\(\(\)\))',
     r'\1(match \2 {\n\1    Ok(__v) => Ok(__v),\n\1    Err(\3) => \4,\n\1})?;\5', 1,
     'Result::or_else(closure) == match on the result (definition of or_else); the closure captures &mut references',
     flags=re.M | re.S)

# ---- tmpl_command_help (code emitted by #[derive(Command)] for Help) -------------------------------------
rule('D20', 'tmpl_command_help', r'^( {16})(hole\(parent, writer\))\?;$',
     r'\1match \2 { Ok(__v) => __v, Err(__e) => return Err(core::convert::From::from(__e)) };', 2,
     '`?` in a function whose error type differs (E -> HelpError<E>) == match with an explicit From::from on the error '
     '(definition of the `?` operator for Result); Verus does not connect the implicit conversion with the From impl')

LENIENT = [False]   # set by the runner when it retries: a rule that does not match is skipped (and logged) instead of raised


def apply(module, src, log):
    _cnt[0] = 0   # parameter numbering restarts with every module text (several mirrors are built per process)
    for r in RULES:
        if r['module'] not in ('*', module):
            continue
        matches = list(r['pat'].finditer(src))
        if r['count'] is not None and len(matches) != r['count']:
            msg = ('%s.rs: desugaring %s expected %d site(s), found %d (pattern %s)'
                   % (module, r['id'], r['count'], len(matches), r['pat'].pattern))
            if LENIENT[0]:
                # the idiom is left as it is: the function that contains it will be rejected by the front end and
                # externalised by the runner (its contract assumed, the properties it carries undecided)
                log.append({'rule': r['id'], 'file': module + '.rs', 'line': 0, 'what': 'SKIPPED (site mismatch): ' + msg})
                if len(matches) == 0:
                    continue
            else:
                raise DesugarMismatch(msg)
        for m in matches:
            line = src.count('\n', 0, m.start()) + 1
            log.append({'rule': r['id'], 'file': module + '.rs', 'line': line,
                        'before': m.group(0).strip()[:200], 'after': (r['repl'](m) if callable(r['repl']) else m.expand(r['repl'])).strip()[:300],
                        'why': r['why']})
        src = r['pat'].sub(r['repl'], src)
    return src
