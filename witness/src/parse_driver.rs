//! BOUNDED stand-in (C16, macro half): what the code emitted by `#[derive(Command)]` for parsing does with a fixed
//! battery of ordinary (non-help, no Tab, no arrows) lines -- the typed command handed to the handler, or the error
//! printed -- under whatever feature set the driver is built with.  The expectations below do not mention any feature:
//! C16 says that switching history / autocomplete / help on or off must not change them.
use super::*;
use crate::cli_driver::{Sink, SinkEv, SinkState};
use embedded_cli::cli::CliBuilder;
use embedded_cli::Command;

#[derive(Debug, Command)]
enum Parsed<'a> {
    /// Open a file
    Open {
        /// File to open
        #[arg(value_name = "FILE")]
        path: &'a str,
        /// Level of detail
        #[arg(short, long, value_name = "LVL")]
        level: Option<u8>,
        /// Required key
        #[arg(short = 'k', long, value_name = "KEYID")]
        key: u16,
        /// Verbose
        #[arg(short = 'V', long)]
        verbose: bool,
    },
    /// Remove things
    #[command(name = "rm")]
    Remove {
        target: &'a str,
        second: Option<&'a str>,
    },
    /// An option whose short name is `h`: an ordinary option when the help facility is off
    Conn {
        #[arg(short, long)]
        host: Option<&'a str>,
    },
    /// Nested
    Net {
        #[arg(short, long)]
        iface: Option<&'a str>,
        #[command(subcommand)]
        command: NetCmd<'a>,
    },
}

#[derive(Debug, Command)]
enum NetCmd<'a> {
    Up,
    Send {
        #[arg(value_name = "PAYLOAD")]
        data: &'a str,
    },
}

fn run_line(line: &str) -> Result<(String, Vec<String>), String> {
    let sink = Sink(Rc::new(RefCell::new(SinkState::default())));
    let calls: Rc<RefCell<Vec<String>>> = Rc::new(RefCell::new(Vec::new()));
    let c2 = calls.clone();
    let mut handler = Parsed::processor(move |_cli, cmd| {
        c2.borrow_mut().push(format!("{:?}", cmd));
        Ok(())
    });
    let cbuf: &'static mut [u8] = Box::leak(vec![0u8; 128].into_boxed_slice());
    let hbuf: &'static mut [u8] = Box::leak(vec![0u8; 16].into_boxed_slice());
    let mut cli = CliBuilder::default().writer(sink.clone()).command_buffer(cbuf).history_buffer(hbuf).prompt("$ ").build().map_err(|_| "build failed".to_string())?;
    for &b in line.as_bytes().iter().chain(b"\r".iter()) {
        cli.process_byte::<Parsed<'_>, _>(b, &mut handler).map_err(|_| "process_byte failed".to_string())?;
    }
    let mut out = Vec::new();
    for e in &sink.0.borrow().evs {
        if let SinkEv::W(b) = e {
            out.extend_from_slice(b)
        }
    }
    let s = String::from_utf8(out).map_err(|_| "output is not UTF-8".to_string())?;
    let echoed = format!("$ {}\r\n", line);
    let body = s.strip_prefix(&echoed).ok_or_else(|| format!("unexpected echo {:?}", s))?;
    let body = body.strip_suffix("$ ").ok_or_else(|| format!("no prompt at the end of {:?}", s))?;
    let c = calls.borrow().clone();
    Ok((body.replace("\r\n", "\n"), c))
}

pub fn run(_r: &mut Rng, _iters: usize) -> Option<Cex> {
    // (line, printed between the echoed line and the next prompt, typed commands handed to the handler)
    let cases: &[(&str, &str, &[&str])] = &[
        ("open a.txt -k 7", "", &["Open { path: \"a.txt\", level: None, key: 7, verbose: false }"]),
        ("open --level 3 -V a.txt --key 9", "", &["Open { path: \"a.txt\", level: Some(3), key: 9, verbose: true }"]),
        ("open -k 7", "error: missing required argument: <FILE>\n", &[]),
        ("open a.txt", "error: missing required argument: --key <KEYID>\n", &[]),
        ("open a.txt -k", "error: missing required argument: --key <KEYID>\n", &[]),
        // (an optional option given without a value at the end of the line is taken as absent)
        ("open a.txt -k 7 --level", "", &["Open { path: \"a.txt\", level: None, key: 7, verbose: false }"]),
        ("open a.txt -k x", "error: failed to parse 'x', expected u16\n", &[]),
        ("open a.txt -k 7 -l 300", "error: failed to parse '300', expected u8\n", &[]),
        // values just above the maximum of the type (no arithmetic overflow on the way to the parse error)
        ("open a.txt -k 7 -l 256", "error: failed to parse '256', expected u8\n", &[]),
        ("open a.txt -k 7 -l 259", "error: failed to parse '259', expected u8\n", &[]),
        ("open a.txt -k 65536", "error: failed to parse '65536', expected u16\n", &[]),
        ("open a.txt -k 65539", "error: failed to parse '65539', expected u16\n", &[]),
        ("open a.txt -k 65535 -l 255", "", &["Open { path: \"a.txt\", level: Some(255), key: 65535, verbose: false }"]),
        ("conn --host a", "", &["Conn { host: Some(\"a\") }"]),
        ("open a.txt -k 7 -x", "error: unexpected option: -x\n", &[]),
        ("open a.txt -k 7 --nope", "error: unexpected option: --nope\n", &[]),
        ("open a.txt b.txt -k 7", "error: unexpected argument: b.txt\n", &[]),
        ("open -k 7 -- -V", "", &["Open { path: \"-V\", level: None, key: 7, verbose: false }"]),
        ("rm", "error: missing required argument: <TARGET>\n", &[]),
        ("rm a", "", &["Remove { target: \"a\", second: None }"]),
        ("rm a \"b c\"", "", &["Remove { target: \"a\", second: Some(\"b c\") }"]),
        ("rm a b c", "error: unexpected argument: c\n", &[]),
        ("net", "error: missing required argument: <COMMAND>\n", &[]),
        ("net up", "", &["Net { iface: None, command: Up }"]),
        ("net -i eth0 send", "error: missing required argument: <PAYLOAD>\n", &[]),
        ("net --iface eth0 send hi", "", &["Net { iface: Some(\"eth0\"), command: Send { data: \"hi\" } }"]),
        ("net fly", "error: unknown command\n", &[]),
        ("nope", "error: unknown command\n", &[]),
        ("", "", &[]),
    ];
    // `-h` belongs to the help facility only when that facility is compiled in
    let no_help: &[(&str, &str, &[&str])] = &[("conn -h a", "", &["Conn { host: Some(\"a\") }"]), ("conn -h", "", &["Conn { host: None }"])];
    let extra: &[(&str, &str, &[&str])] = if cfg!(feature = "help") { &[] } else { no_help };
    for (line, printed, calls) in cases.iter().chain(extra.iter()) {
        crate::note(&format!("derived parser, line {:?}", line));
        match run_line(line) {
            Ok((out, c)) => {
                let want: Vec<String> = calls.iter().map(|s| s.to_string()).collect();
                if out != *printed || c != want {
                    return Some(Cex {
                        input: format!("derived parser (custom value names, options, sub-command), line {:?}", line),
                        expected: format!("printed {:?}, handler receives {:?} -- under every feature set", printed, want),
                        actual: format!("printed {:?}, handler receives {:?}", out, c),
                    });
                }
            }
            Err(e) => return Some(Cex { input: format!("derived parser, line {:?}", line), expected: format!("printed {:?}", printed), actual: e }),
        }
    }
    None
}
