//! BOUNDED stand-in (C16 / C11, macro half): a command group with a hidden member, under whatever feature set the
//! driver is built with: Tab never completes to a command of the hidden group, and completes the visible ones as usual.
use super::*;
use crate::cli_driver::{Handler, Sink, SinkEv, SinkState};
use embedded_cli::cli::CliBuilder;
use embedded_cli::{Command, CommandGroup};

#[derive(Debug, Command)]
enum Visible {
    /// Show status
    Status,
    /// Restart
    Reboot,
}

#[derive(Debug, Command)]
enum Secret {
    /// Factory reset
    Wipe,
    /// Hidden twin of a visible prefix
    StatusRaw,
}

#[derive(Debug, Command)]
enum More {
    /// A later group holds a name that extends a name of an earlier group
    StatusAll,
}

#[derive(Debug, CommandGroup)]
enum Group {
    Visible(Visible),
    #[group(hidden)]
    Secret(Secret),
    More(More),
}

fn tab(prefix: &str) -> Result<String, String> {
    let sink = Sink(Rc::new(RefCell::new(SinkState::default())));
    let calls = Rc::new(RefCell::new(Vec::new()));
    let mut handler = Handler { calls: calls.clone(), outputs: vec![vec![]], n: 0 };
    let cbuf: &'static mut [u8] = Box::leak(vec![0u8; 64].into_boxed_slice());
    let hbuf: &'static mut [u8] = Box::leak(vec![0u8; 16].into_boxed_slice());
    let mut cli = CliBuilder::default().writer(sink.clone()).command_buffer(cbuf).history_buffer(hbuf).prompt("$ ").build().map_err(|_| "build failed".to_string())?;
    for &b in prefix.as_bytes().iter().chain(b"\t".iter()) {
        cli.process_byte::<Group, _>(b, &mut handler).map_err(|_| "process_byte failed".to_string())?;
    }
    Ok(cli.editor.as_ref().unwrap().text().to_string())
}

pub fn run(_r: &mut Rng, _iters: usize) -> Option<Cex> {
    // (typed, line after Tab)
    // visible names: status, reboot, status-all (declared in a later group); hidden: wipe, status-raw
    let cases: &[(&str, &str)] = &[("w", "w"), ("wi", "wi"), ("st", "status"), ("status", "status"), ("status-", "status-all "), ("status-r", "status-r"), ("re", "reboot "), ("x", "x")];
    for (typed, expected) in cases {
        let expected = if cfg!(feature = "autocomplete") { *expected } else { *typed };
        match tab(typed) {
            Ok(line) if line == expected => {}
            Ok(line) => {
                return Some(Cex {
                    input: format!("group with a hidden member: {:?} + Tab", typed),
                    expected: format!("line {:?}", expected),
                    actual: format!("line {:?}", line),
                })
            }
            Err(e) => return Some(Cex { input: format!("{:?} + Tab", typed), expected: format!("line {:?}", expected), actual: e }),
        }
    }
    None
}
