//! Witness search: replays small inputs on the REAL code of /repo (built from the current working tree, see
//! tools/witness.py) and compares with executable transcriptions of the specification functions / std.
//! It never decides a property: it only attaches a concrete failing input to a violation reported by the verifier.
//!
//!   witness <driver> <seed> <iterations>      -> one JSON line {"driver","found",["input","expected","actual"]}
#![allow(clippy::all)]
#![allow(dead_code, deprecated)]

use std::cell::RefCell;
use std::fmt::Write as _;
use std::rc::Rc;

mod cli_driver;
mod hidden_driver;
mod parse_driver;
#[cfg(all(feature = "help", feature = "autocomplete", feature = "history"))]
mod derive_driver;

pub struct Rng(pub u64);
impl Rng {
    pub fn next(&mut self) -> u64 {
        self.0 ^= self.0 << 13;
        self.0 ^= self.0 >> 7;
        self.0 ^= self.0 << 17;
        self.0
    }
    pub fn below(&mut self, n: usize) -> usize {
        (self.next() % (n as u64)) as usize
    }
}

thread_local! {
    /// the case a driver is working on: printed by the panic hook, so that a panic or abort inside the library (C03)
    /// comes with the input that caused it
    static CURRENT: RefCell<String> = RefCell::new(String::new());
}
pub fn note(s: &str) {
    CURRENT.with(|c| {
        let mut c = c.borrow_mut();
        c.clear();
        c.push_str(s);
    });
}
pub fn note_bytes(prefix: &str, b: &[u8]) {
    CURRENT.with(|c| {
        let mut c = c.borrow_mut();
        c.clear();
        c.push_str(prefix);
        for &x in b {
            let _ = write!(c, "\\x{:02x}", x);
        }
    });
}

/// every `&str` a driver takes from the library goes through here BEFORE it is compared, copied or formatted: text that
/// is not well-formed UTF-8 is reported as such (C02) instead of being iterated (which is undefined behaviour)
pub fn lib_str(s: &str) -> &str {
    if std::str::from_utf8(s.as_bytes()).is_err() {
        let cur = CURRENT.with(|c| c.borrow().clone());
        let driver = std::env::args().nth(1).unwrap_or_default();
        println!(
            "{{\"driver\": {}, \"found\": true, \"input\": {}, \"expected\": \"well-formed UTF-8 in every string the library hands out\", \"actual\": {}}}",
            j(&driver),
            j(&cur),
            j(&format!("ill-formed UTF-8 {}", esc(s.as_bytes())))
        );
        std::process::exit(0);
    }
    s
}

pub struct Cex {
    pub input: String,
    pub expected: String,
    pub actual: String,
}

pub fn esc(b: &[u8]) -> String {
    let mut s = String::new();
    for &x in b {
        if (0x20..0x7f).contains(&x) && x != b'\\' && x != b'"' {
            s.push(x as char)
        } else {
            write!(s, "\\x{:02x}", x).unwrap()
        }
    }
    s
}

pub const CHARS: &[char] = &[
    'a', 'b', ' ', '-', 'h', 'é', 'а', 'о', '€', '佐', '佗', '😀', '\u{11fc1}', '\u{11fc6}', '\u{80}', '\u{7ff}', '\u{800}',
    '\u{d7ff}', '\u{e000}', '\u{ffff}', '\u{10000}', '\u{10ffff}',
    // continuation octets that are Latin-1 white space when taken alone (0xA0, 0x85), and Unicode white space that is not ' '
    'à', 'Р', 'х', '\u{a0}', '\u{3000}',
];

/// all strings over `alpha` of length <= n
pub fn strings(alpha: &[char], n: usize) -> Vec<String> {
    let mut res = vec![String::new()];
    let mut layer = vec![String::new()];
    for _ in 0..n {
        let mut next = Vec::new();
        for s in &layer {
            for &c in alpha {
                let mut t = s.clone();
                t.push(c);
                next.push(t);
            }
        }
        res.extend(next.iter().cloned());
        layer = next;
    }
    res
}

pub fn rand_string(r: &mut Rng, alpha: &[char], maxlen: usize) -> String {
    let n = r.below(maxlen + 1);
    (0..n).map(|_| alpha[r.below(alpha.len())]).collect()
}

// ------------------------------------------------------------------------------------------------ decoder
mod decoder {
    use super::*;
    use embedded_cli::input::{ControlInput, Input, InputGenerator};

    #[derive(PartialEq, Debug, Clone)]
    pub enum Ev {
        Char(Vec<u8>),
        Backspace,
        Tab,
        Enter,
        Up,
        Down,
        Right,
        Left,
    }

    fn lead_width(b: u8) -> usize {
        if (0xC2..=0xDF).contains(&b) {
            2
        } else if (0xE0..=0xEF).contains(&b) {
            3
        } else if (0xF0..=0xF4).contains(&b) {
            4
        } else {
            0
        }
    }
    fn cont(b: u8) -> bool {
        b & 0xC0 == 0x80
    }
    fn second_ok(first: u8, b: u8) -> bool {
        cont(b) && (first != 0xE0 || b >= 0xA0) && (first != 0xED || b < 0xA0) && (first != 0xF0 || b >= 0x90) && (first != 0xF4 || b < 0x90)
    }
    /// transcription of specs/20_utf8_spec.rs acc_step
    pub fn acc_step(p: &mut Vec<u8>, b: u8) -> Option<Vec<u8>> {
        if b < 0x80 {
            p.clear();
            Some(vec![b])
        } else if lead_width(b) > 0 {
            p.clear();
            p.push(b);
            None
        } else if !cont(b) || p.is_empty() || (p.len() == 1 && !second_ok(p[0], b)) {
            p.clear();
            None
        } else if p.len() + 1 == lead_width(p[0]) {
            let mut r = p.clone();
            r.push(b);
            p.clear();
            Some(r)
        } else {
            p.push(b);
            None
        }
    }

    /// transcription of specs/30_decoder_spec.rs dec_step
    #[derive(Default)]
    pub struct Ref {
        csi: bool,
        prev_esc: bool,
        pend: Option<u8>,
        acc: Vec<u8>,
    }
    impl Ref {
        pub fn step(&mut self, b: u8) -> Option<Ev> {
            if self.csi {
                self.prev_esc = false;
                self.pend = None;
                if (0x40..=0x7E).contains(&b) {
                    self.csi = false;
                    return match b {
                        0x41 => Some(Ev::Up),
                        0x42 => Some(Ev::Down),
                        0x43 => Some(Ev::Right),
                        0x44 => Some(Ev::Left),
                        _ => None,
                    };
                }
                return None;
            }
            if self.prev_esc && b == 0x5B {
                self.csi = true;
                self.prev_esc = false;
                self.pend = None;
                return None;
            }
            let pend = self.pend.take();
            self.prev_esc = false;
            match b {
                0x08 => Some(Ev::Backspace),
                0x09 => Some(Ev::Tab),
                0x0D => {
                    if pend == Some(0x0A) {
                        None
                    } else {
                        self.pend = Some(0x0D);
                        Some(Ev::Enter)
                    }
                }
                0x0A => {
                    if pend == Some(0x0D) {
                        None
                    } else {
                        self.pend = Some(0x0A);
                        Some(Ev::Enter)
                    }
                }
                b if b >= 0x20 => acc_step(&mut self.acc, b).map(Ev::Char),
                b => {
                    self.prev_esc = b == 0x1B;
                    None
                }
            }
        }
    }

    pub fn real_events(bytes: &[u8]) -> Result<Vec<Ev>, String> {
        let mut g = InputGenerator::new();
        let mut out = Vec::new();
        for &b in bytes {
            match g.accept(b) {
                Some(Input::Control(c)) => out.push(match c {
                    ControlInput::Backspace => Ev::Backspace,
                    ControlInput::Down => Ev::Down,
                    ControlInput::Enter => Ev::Enter,
                    ControlInput::Back => Ev::Left,
                    ControlInput::Forward => Ev::Right,
                    ControlInput::Tab => Ev::Tab,
                    ControlInput::Up => Ev::Up,
                }),
                Some(Input::Char(s)) => {
                    let raw = s.as_bytes().to_vec();
                    match std::str::from_utf8(&raw) {
                        Ok(t) if t.chars().count() == 1 => {}
                        _ => return Err(format!("Char event carries ill-formed UTF-8 {}", esc(&raw))),
                    }
                    out.push(Ev::Char(raw))
                }
                None => {}
            }
        }
        Ok(out)
    }

    pub fn check(bytes: &[u8]) -> Option<Cex> {
        crate::note_bytes("", bytes);
        let mut r = Ref::default();
        let exp: Vec<Ev> = bytes.iter().filter_map(|&b| r.step(b)).collect();
        match real_events(bytes) {
            Ok(act) if act == exp => None,
            Ok(act) => Some(Cex { input: esc(bytes), expected: format!("{:?}", exp), actual: format!("{:?}", act) }),
            Err(e) => Some(Cex { input: esc(bytes), expected: format!("{:?}", exp), actual: e }),
        }
    }

    pub const ALPHA: &[u8] = &[
        0x0D, 0x0A, 0x1B, b'[', b'A', b'D', b'~', b'1', 0x08, 0x09, 0x00, 0x1F, 0x7F, b'a', 0xC3, 0xA9, 0xE2, 0x82, 0xAC, 0xF0, 0x9F,
        0x98, 0x80, 0xBF, 0xC0, 0xC1, 0xE0, 0xED, 0xA0, 0xF4, 0x90, 0xF5, 0xFF,
    ];

    pub fn run(r: &mut Rng, iters: usize) -> Option<Cex> {
        // exhaustive up to the decoder's memory depth over the byte classes, then random at length
        let n = ALPHA.len();
        for len in 1..=4usize {
            let total = n.pow(len as u32);
            for mut k in 0..total {
                let mut v = Vec::with_capacity(len);
                for _ in 0..len {
                    v.push(ALPHA[k % n]);
                    k /= n;
                }
                if let Some(c) = check(&v) {
                    return Some(c);
                }
            }
        }
        for _ in 0..iters {
            let len = 1 + r.below(40);
            let v: Vec<u8> = (0..len).map(|_| if r.below(4) == 0 { r.next() as u8 } else { ALPHA[r.below(n)] }).collect();
            if let Some(c) = check(&v) {
                return Some(c);
            }
        }
        None
    }

    /// C17, option use: `cmd -<c>x` is (with the help feature: unless c is `h`) not a help request and its arguments
    /// are the short options c and x
    fn short_option(c: char) -> Option<Cex> {
        use embedded_cli::arguments::Arg;
        use embedded_cli::command::RawCommand;
        use embedded_cli::token::Tokens;
        // submitted inside a command name and an argument: the tokens carry exactly what was typed
        {
            let line = format!("x{} {}y", c, c);
            crate::note(&format!("U+{:04X} inside command name and argument: line {:?}", c as u32, line));
            let mut owned = line.clone();
            let got: Vec<Vec<u8>> = Tokens::new(owned.as_mut_str()).iter().map(|t| t.as_bytes().to_vec()).collect();
            let want: Vec<Vec<u8>> = vec![format!("x{}", c).into_bytes(), format!("{}y", c).into_bytes()];
            if got != want {
                return Some(Cex {
                    input: format!("U+{:04X} inside command name and argument: Tokens::new({:?})", c as u32, line),
                    expected: format!("{:?}", want.iter().map(|t| esc(t)).collect::<Vec<_>>()),
                    actual: format!("{:?}", got.iter().map(|t| esc(t)).collect::<Vec<_>>()),
                });
            }
        }
        let line = format!("cmd -{}x", c);
        crate::note(&format!("short option U+{:04X}: line {:?}", c as u32, line));
        let mut owned = line.clone();
        let tokens = Tokens::new(owned.as_mut_str());
        let cmd = RawCommand::from_tokens(&tokens)?;
        let got: Vec<String> = cmd
            .args()
            .args()
            .map(|a| match a {
                Arg::ShortOption(s) => format!("Short(U+{:04X})", s as u32),
                Arg::LongOption(n) => format!("Long({})", crate::lib_str(n)),
                Arg::Value(v) => format!("Value({})", crate::lib_str(v)),
                Arg::DoubleDash => "DoubleDash".to_string(),
            })
            .collect();
        let want = vec![format!("Short(U+{:04X})", c as u32), "Short(U+0078)".to_string()];
        if got != want {
            return Some(Cex { input: format!("U+{:04X} as a short option: arguments of {:?}", c as u32, line), expected: format!("{:?}", want), actual: format!("{:?}", got) });
        }
        #[cfg(feature = "help")]
        {
            let is_help = embedded_cli::help::HelpRequest::from_command(&cmd).is_some();
            if is_help != (c == 'h') {
                return Some(Cex {
                    input: format!("U+{:04X} as a short option: HelpRequest::from_command of {:?}", c as u32, line),
                    expected: format!("help request: {}", c == 'h'),
                    actual: format!("help request: {}", is_help),
                });
            }
        }
        None
    }

    /// C17, typing: every scalar value >= U+0020 other than DEL, in a stream where it stands next to characters of
    /// every encoded length on both sides, must come out of the decoder as exactly one Char event carrying its encoding
    pub fn run_scalars() -> Option<Cex> {
        let neighbours = ['a', '\u{e9}', '\u{20ac}', '\u{1f600}'];
        for cp in 0x20u32..=0x10FFFF {
            let c = match char::from_u32(cp) {
                Some(c) if cp != 0x7F => c,
                _ => continue,
            };
            let mut text = String::new();
            for n in neighbours {
                text.push(n);
                text.push(c);
            }
            text.push('a');
            // ... and used as a short option: only `h` is reserved for help, every other scalar value arrives as itself
            if c != ' ' && c != '"' && c != '\\' && c != '-' {
                if let Some(cex) = short_option(c) {
                    return Some(cex);
                }
            }
            crate::note_bytes("typed: ", text.as_bytes());
            let exp: Vec<Ev> = text.chars().map(|ch| Ev::Char(ch.to_string().into_bytes())).collect();
            match real_events(text.as_bytes()) {
                Ok(act) if act == exp => {}
                Ok(act) => {
                    return Some(Cex { input: format!("typed U+{:04X} between neighbours: {}", cp, esc(text.as_bytes())), expected: format!("{:?}", exp), actual: format!("{:?}", act) })
                }
                Err(e) => return Some(Cex { input: format!("typed U+{:04X} between neighbours: {}", cp, esc(text.as_bytes())), expected: format!("{:?}", exp), actual: e }),
            }
        }
        None
    }
}

// ------------------------------------------------------------------------------------------------ utils
mod utils_driver {
    use super::*;
    use embedded_cli::utils;

    fn lcp(a: &str, b: &str) -> usize {
        let mut n = 0;
        for (x, y) in a.chars().zip(b.chars()) {
            if x != y {
                break;
            }
            n += x.len_utf8();
        }
        n
    }

    pub fn check_one(s: &str) -> Option<Cex> {
        crate::note(&format!("utils functions on {:?}", s));
        let exp = s.chars().count();
        let act = utils::char_count(s);
        if act != exp {
            return Some(Cex { input: format!("char_count({:?})", s), expected: exp.to_string(), actual: act.to_string() });
        }
        for k in 0..=exp + 1 {
            let e = s.char_indices().nth(k).map(|x| x.0);
            let a = utils::char_byte_index(s, k);
            if a != e {
                return Some(Cex { input: format!("char_byte_index({:?}, {})", s, k), expected: format!("{:?}", e), actual: format!("{:?}", a) });
            }
        }
        let e = s.chars().next().map(|c| (c, &s[c.len_utf8()..]));
        let a = utils::char_pop_front(s);
        if a != e {
            return Some(Cex { input: format!("char_pop_front({:?})", s), expected: format!("{:?}", e), actual: format!("{:?}", a) });
        }
        let e = s.trim_start_matches(' ');
        let a = utils::trim_start(s);
        if a != e {
            return Some(Cex { input: format!("trim_start({:?})", s), expected: format!("{:?}", e), actual: format!("{:?}", a) });
        }
        None
    }

    pub fn check_pair(a: &str, b: &str) -> Option<Cex> {
        crate::note(&format!("common_prefix_len({:?}, {:?})", a, b));
        let e = lcp(a, b);
        let r = utils::common_prefix_len(a, b);
        if r != e {
            return Some(Cex { input: format!("common_prefix_len({:?}, {:?})", a, b), expected: e.to_string(), actual: r.to_string() });
        }
        None
    }

    pub fn run(r: &mut Rng, iters: usize) -> Option<Cex> {
        // every scalar value
        let mut buf = [0u8; 4];
        let mut buf2 = [0u8; 4];
        for cp in 0..=0x10FFFFu32 {
            if let Some(c) = char::from_u32(cp) {
                let e = c.encode_utf8(&mut buf2).as_bytes().to_vec();
                let a = utils::encode_utf8(c, &mut buf).as_bytes().to_vec();
                if a != e {
                    return Some(Cex { input: format!("encode_utf8(U+{:04X})", cp), expected: esc(&e), actual: esc(&a) });
                }
            }
        }
        let small = strings(CHARS, 2);
        for s in &small {
            if let Some(c) = check_one(s) {
                return Some(c);
            }
        }
        for a in &small {
            for b in &small {
                if let Some(c) = check_pair(a, b) {
                    return Some(c);
                }
            }
        }
        for _ in 0..iters {
            let a = rand_string(r, CHARS, 8);
            let mut b = rand_string(r, CHARS, 8);
            if r.below(2) == 0 {
                // share a prefix
                let k = r.below(a.chars().count() + 1);
                b = a.chars().take(k).collect::<String>() + &b;
            }
            if let Some(c) = check_one(&a).or_else(|| check_pair(&a, &b)) {
                return Some(c);
            }
        }
        None
    }
}

// ------------------------------------------------------------------------------------------------ tokens / arguments / help
pub mod token_driver {
    use super::*;
    use embedded_cli::arguments::{Arg, ArgList};
    use embedded_cli::command::RawCommand;
    use embedded_cli::help::HelpRequest;
    use embedded_cli::token::Tokens;

    /// transcription of specs/40_token_spec.rs tokenize
    pub fn tokenize(line: &[u8]) -> Vec<Vec<u8>> {
        #[derive(PartialEq)]
        enum M {
            Space,
            Normal,
            Quoted,
            Unescape,
        }
        let mut done: Vec<Vec<u8>> = Vec::new();
        let mut cur: Option<Vec<u8>> = None;
        let mut mode = M::Space;
        for &b in line {
            match mode {
                M::Space => {
                    if b == b'"' {
                        if let Some(c) = cur.take() {
                            done.push(c)
                        }
                        cur = Some(Vec::new());
                        mode = M::Quoted;
                    } else if b != b' ' {
                        if let Some(c) = cur.take() {
                            done.push(c)
                        }
                        cur = Some(vec![b]);
                        mode = M::Normal;
                    }
                }
                M::Normal => {
                    if b == b' ' {
                        done.push(cur.take().unwrap());
                        mode = M::Space;
                    } else {
                        cur.as_mut().unwrap().push(b)
                    }
                }
                M::Quoted => {
                    if b == b'"' {
                        done.push(cur.take().unwrap());
                        mode = M::Space;
                    } else if b == b'\\' {
                        mode = M::Unescape
                    } else {
                        cur.as_mut().unwrap().push(b)
                    }
                }
                M::Unescape => {
                    cur.as_mut().unwrap().push(b);
                    mode = M::Quoted;
                }
            }
        }
        if let Some(c) = cur.take() {
            done.push(c)
        }
        done
    }

    pub fn render(list: &[String]) -> String {
        let mut out = String::new();
        for (i, t) in list.iter().enumerate() {
            if i > 0 {
                out.push(' ');
            }
            out.push('"');
            for c in t.chars() {
                if c == '"' || c == '\\' {
                    out.push('\\');
                }
                out.push(c);
            }
            out.push('"');
        }
        out
    }

    #[derive(PartialEq, Debug, Clone)]
    pub enum Item {
        DoubleDash,
        Long(String),
        Short(char),
        Value(String),
    }

    /// classification written from the statement of C08
    pub fn classify(tokens: &[Vec<u8>]) -> Vec<Item> {
        let mut out = Vec::new();
        let mut values_only = false;
        for t in tokens {
            let s = String::from_utf8(t.clone()).unwrap();
            if values_only {
                out.push(Item::Value(s));
            } else if s == "--" {
                values_only = true;
                out.push(Item::DoubleDash);
            } else if let Some(name) = s.strip_prefix("--") {
                out.push(Item::Long(name.to_string()));
            } else if s.len() > 1 && s.starts_with('-') {
                for c in s[1..].chars() {
                    out.push(Item::Short(c));
                }
            } else {
                out.push(Item::Value(s));
            }
        }
        out
    }

    pub fn real_items(args: &ArgList<'_>) -> Vec<Item> {
        args.args()
            .map(|a| match a {
                Arg::DoubleDash => Item::DoubleDash,
                Arg::LongOption(n) => Item::Long(crate::lib_str(n).to_string()),
                Arg::ShortOption(c) => Item::Short(c),
                Arg::Value(v) => Item::Value(crate::lib_str(v).to_string()),
            })
            .collect()
    }

    /// Some(None) = help for everything, Some(Some((name, items))) = help for a command, None = not a help request;
    /// Err = the statement is silent (e.g. `help -x`)
    pub fn wants_help(tokens: &[Vec<u8>]) -> Result<Option<Option<(String, Vec<Item>)>>, ()> {
        if tokens.is_empty() {
            return Ok(None);
        }
        let name = String::from_utf8(tokens[0].clone()).unwrap();
        let items = classify(&tokens[1..]);
        if name == "help" {
            if items.is_empty() {
                return Ok(Some(None));
            }
            if let Item::Value(v) = &items[0] {
                return Ok(Some(Some((v.clone(), classify(&tokens[2..])))));
            }
            return Err(());
        }
        let mut has = false;
        for it in &items {
            match it {
                Item::DoubleDash => break,
                Item::Long(n) if n == "help" => has = true,
                Item::Short('h') => has = true,
                _ => {}
            }
        }
        if has {
            Ok(Some(Some((name, items))))
        } else {
            Ok(None)
        }
    }

    pub fn check(line: &str) -> Option<Cex> {
        crate::note(&format!("Tokens::new({:?}) and the arguments / help request of the line", line));
        let exp = tokenize(line.as_bytes());
        let mut owned = line.to_string();
        let tokens = Tokens::new(owned.as_mut_str());
        let act: Vec<Vec<u8>> = tokens.iter().map(|t| t.as_bytes().to_vec()).collect();
        for t in &act {
            if std::str::from_utf8(t).is_err() {
                return Some(Cex { input: format!("Tokens::new({:?})", line), expected: "well-formed tokens".into(), actual: esc(t) });
            }
        }
        if act != exp {
            let show = |v: &Vec<Vec<u8>>| format!("{:?}", v.iter().map(|t| esc(t)).collect::<Vec<_>>());
            return Some(Cex { input: format!("Tokens::new({:?})", line), expected: show(&exp), actual: show(&act) });
        }
        // arguments and help classification over the same tokens
        if let Some(cmd) = RawCommand::from_tokens(&tokens) {
            if cmd.name().as_bytes() != &exp[0][..] {
                return Some(Cex { input: format!("RawCommand::from_tokens({:?})", line), expected: esc(&exp[0]), actual: crate::lib_str(cmd.name()).to_string() });
            }
            let e = classify(&exp[1..]);
            let a = real_items(&cmd.args());
            if a != e {
                return Some(Cex { input: format!("arguments of {:?}", line), expected: format!("{:?}", e), actual: format!("{:?}", a) });
            }
            #[cfg(feature = "help")]
            if let Ok(w) = wants_help(&exp) {
                let a = match HelpRequest::from_command(&cmd) {
                    None => None,
                    Some(HelpRequest::All) => Some(None),
                    Some(HelpRequest::Command(c)) => Some(Some((crate::lib_str(c.name()).to_string(), real_items(&c.args())))),
                };
                if a != w {
                    return Some(Cex { input: format!("HelpRequest::from_command({:?})", line), expected: format!("{:?}", w), actual: format!("{:?}", a) });
                }
            }
        } else if !exp.is_empty() {
            return Some(Cex { input: format!("RawCommand::from_tokens({:?})", line), expected: "Some".into(), actual: "None".into() });
        }
        None
    }

    pub const ALPHA: &[char] = &[' ', '"', '\\', 'a', '-', 'h', 'é', 'à', 'х'];
    pub const WORDS: &[&str] = &["help", "--help", "-h", "--", "-", "cmd", "-ab", "---x", "\"\"", "\"a b\"", "-é€", "--hélp", "-xh", "\"--\"", "sub", "-aàb", "--Режим", "à\u{a0}b", "х"];

    pub fn run(r: &mut Rng, iters: usize) -> Option<Cex> {
        for s in strings(ALPHA, 6) {
            if let Some(c) = check(&s) {
                return Some(c);
            }
        }
        for _ in 0..iters {
            let n = r.below(6);
            let mut line = String::new();
            for _ in 0..n {
                for _ in 0..r.below(3) {
                    line.push(' ');
                }
                if r.below(4) == 0 {
                    line += &rand_string(r, ALPHA, 4);
                } else {
                    line += WORDS[r.below(WORDS.len())];
                    if r.below(6) != 0 {
                        line.push(' ');
                    }
                }
            }
            if let Some(c) = check(&line) {
                return Some(c);
            }
            // round trip: any list of strings can be passed verbatim
            let list: Vec<String> = (0..r.below(4)).map(|_| rand_string(r, &['a', ' ', '"', '\\', 'é', '-'], 4)).collect();
            let rendered = render(&list);
            let mut owned = rendered.clone();
            let act: Vec<String> = Tokens::new(owned.as_mut_str()).iter().map(|t| crate::lib_str(t).to_string()).collect();
            if act != list {
                return Some(Cex { input: format!("Tokens::new({:?})", rendered), expected: format!("{:?}", list), actual: format!("{:?}", act) });
            }
        }
        None
    }
}

// ------------------------------------------------------------------------------------------------ editor
mod editor_driver {
    use super::*;
    use embedded_cli::editor::Editor;

    pub fn run(r: &mut Rng, iters: usize) -> Option<Cex> {
        for it in 0..iters.max(20000) {
            let cap = r.below(if it % 3 == 0 { 6 } else { 24 });
            let mut buf = vec![0u8; cap];
            let mut ed = Editor::new(&mut buf[..]);
            let mut line: Vec<char> = Vec::new();
            let mut cur = 0usize;
            let mut trace = format!("cap={}", cap);
            crate::note(&trace);
            for _ in 0..r.below(24) {
                let op = r.below(6);
                match op {
                    0 | 1 => {
                        let t = rand_string(r, CHARS, if op == 0 { 1 } else { 3 });
                        write!(trace, " insert({:?})", t).unwrap();
                        crate::note(&trace);
                        let fits = line.iter().map(|c| c.len_utf8()).sum::<usize>() + t.len() <= cap;
                        let res = ed.insert(&t).map(|s| crate::lib_str(s).to_string());
                        if res.is_some() != fits {
                            return Some(Cex { input: trace, expected: format!("accepted={}", fits), actual: format!("{:?}", res) });
                        }
                        if fits {
                            for (i, c) in t.chars().enumerate() {
                                line.insert(cur + i, c);
                            }
                            cur += t.chars().count();
                        }
                    }
                    2 => {
                        trace += " left";
                        crate::note(&trace);
                        let e = cur > 0;
                        if e {
                            cur -= 1
                        }
                        if ed.move_left() != e {
                            return Some(Cex { input: trace, expected: format!("move_left()={}", e), actual: format!("{}", !e) });
                        }
                    }
                    3 => {
                        trace += " right";
                        crate::note(&trace);
                        let e = cur < line.len();
                        if e {
                            cur += 1
                        }
                        if ed.move_right() != e {
                            return Some(Cex { input: trace, expected: format!("move_right()={}", e), actual: format!("{}", !e) });
                        }
                    }
                    4 => {
                        trace += " remove";
                        crate::note(&trace);
                        if cur < line.len() {
                            line.remove(cur);
                        }
                        ed.remove();
                    }
                    _ => {
                        if r.below(8) == 0 {
                            trace += " clear";
                            crate::note(&trace);
                            line.clear();
                            cur = 0;
                            ed.clear();
                        }
                    }
                }
                let exp: String = line.iter().collect();
                crate::lib_str(ed.text());
                if ed.text() != exp || ed.cursor() != cur || ed.len() != line.len() {
                    return Some(Cex {
                        input: trace,
                        expected: format!("line={:?} cursor={}", exp, cur),
                        actual: format!("line={:?} cursor={} len={}", ed.text(), ed.cursor(), ed.len()),
                    });
                }
                if std::str::from_utf8(ed.text().as_bytes()).is_err() {
                    return Some(Cex { input: trace, expected: "well-formed line".into(), actual: esc(ed.text().as_bytes()) });
                }
            }
        }
        None
    }
}

// ------------------------------------------------------------------------------------------------ history
#[cfg(feature = "history")]
pub mod history_driver {
    use super::*;
    use embedded_cli::history::History;

    /// model written from the statement of C10
    #[derive(Default, Clone)]
    pub struct Model {
        pub entries: Vec<String>,
        pub nav: Option<usize>,
        pub cap: usize,
    }
    impl Model {
        pub fn push(&mut self, t: &str) {
            if t.is_empty() || t.contains('\0') || t.len() + 1 > self.cap {
                return;
            }
            self.entries.retain(|e| e != t);
            self.entries.push(t.to_string());
            while self.entries.iter().map(|e| e.len() + 1).sum::<usize>() > self.cap {
                self.entries.remove(0);
            }
            self.nav = None;
        }
        pub fn older(&mut self) -> Option<String> {
            let n = match self.nav {
                None if !self.entries.is_empty() => self.entries.len() - 1,
                Some(i) if i > 0 => i - 1,
                _ => return None,
            };
            self.nav = Some(n);
            Some(self.entries[n].clone())
        }
        pub fn newer(&mut self) -> Option<String> {
            match self.nav {
                Some(i) if i + 1 < self.entries.len() => {
                    self.nav = Some(i + 1);
                    Some(self.entries[i + 1].clone())
                }
                _ => {
                    self.nav = None;
                    None
                }
            }
        }
    }

    pub fn run(r: &mut Rng, iters: usize) -> Option<Cex> {
        let words = ["a", "bb", "ccc", "dddd", "é", "a b", "€€", "", "x\0y", "eeeeeeee", "ff"];
        for _ in 0..iters.max(20000) {
            let cap = r.below(16);
            let mut buf = vec![0u8; cap];
            let mut h = History::new(&mut buf[..]);
            let mut m = Model { cap, ..Default::default() };
            let mut trace = format!("cap={}", cap);
            crate::note(&trace);
            for _ in 0..r.below(20) {
                match r.below(4) {
                    0 | 1 => {
                        let w = words[r.below(words.len())];
                        write!(trace, " push({:?})", w).unwrap();
                        crate::note(&trace);
                        h.push(w);
                        m.push(w);
                    }
                    2 => {
                        trace += " older";
                        crate::note(&trace);
                        let e = m.older();
                        let a = h.next_older().map(|s| crate::lib_str(s).to_string());
                        if a != e {
                            return Some(Cex { input: trace, expected: format!("{:?}", e), actual: format!("{:?}", a) });
                        }
                    }
                    _ => {
                        trace += " newer";
                        crate::note(&trace);
                        let e = m.newer();
                        let a = h.next_newer().map(|s| crate::lib_str(s).to_string());
                        if a != e {
                            return Some(Cex { input: trace, expected: format!("{:?}", e), actual: format!("{:?}", a) });
                        }
                    }
                }
            }
            // drain: everything that is recorded, newest first
            let mut mm = m.clone();
            mm.nav = None;
            // reset real navigation by walking to the newest end
            while h.next_newer().is_some() {}
            let mut exp = Vec::new();
            while let Some(e) = mm.older() {
                exp.push(e)
            }
            let mut act = Vec::new();
            while let Some(e) = h.next_older() {
                act.push(crate::lib_str(e).to_string());
                if act.len() > 64 {
                    break;
                }
            }
            if act != exp {
                return Some(Cex { input: trace + " ; recall all", expected: format!("{:?}", exp), actual: format!("{:?}", act) });
            }
        }
        None
    }
}

// ------------------------------------------------------------------------------------------------ autocomplete (library)
#[cfg(feature = "autocomplete")]
mod ac_driver {
    use super::*;
    use embedded_cli::autocomplete::Autocompletion;

    fn lcp_all(c: &[String]) -> String {
        let mut p: Vec<char> = c[0].chars().collect();
        for s in &c[1..] {
            let n = p.iter().zip(s.chars()).take_while(|(a, b)| **a == *b).count();
            p.truncate(n);
        }
        p.into_iter().collect()
    }

    pub fn run(r: &mut Rng, iters: usize) -> Option<Cex> {
        let alpha = ['a', 'b', 'é', 'а', 'о', '佐', '佗', '\u{11fc1}', '\u{11fc6}'];
        for _ in 0..iters.max(50000) {
            let room = r.below(12);
            let n = 1 + r.below(3);
            let stem = rand_string(r, &alpha, 3);
            let cands: Vec<String> = (0..n).map(|_| if r.below(3) == 0 { rand_string(r, &alpha, 5) } else { stem.clone() + &rand_string(r, &alpha, 3) }).collect();
            crate::note(&format!("room={} merge{:?}", room, cands));
            let mut buf = vec![0u8; room];
            let mut a = Autocompletion::new(&mut buf[..]);
            for c in &cands {
                a.merge_autocompletion(c);
            }
            let got = a.autocompleted().map(|s| s.as_bytes().to_vec());
            let partial = a.is_partial();
            let input = format!("room={} merge{:?}", room, cands);
            let got = match got {
                None => return Some(Cex { input, expected: "Some(..)".into(), actual: "None".into() }),
                Some(g) => g,
            };
            let gs = match String::from_utf8(got.clone()) {
                Ok(s) => s,
                Err(_) => return Some(Cex { input, expected: "well-formed continuation".into(), actual: esc(&got) }),
            };
            if !cands.iter().all(|c| c.starts_with(&gs)) {
                return Some(Cex { input, expected: "a common prefix of all candidates".into(), actual: format!("{:?}", gs) });
            }
            let l = lcp_all(&cands);
            if cands.iter().all(|c| c.len() <= room) && room > 0 && gs != l {
                return Some(Cex { input, expected: format!("{:?}", l), actual: format!("{:?}", gs) });
            }
            let complete = cands.len() == 1 && gs == cands[0];
            if partial == complete {
                return Some(Cex { input, expected: format!("partial={}", !complete), actual: format!("partial={}", partial) });
            }
        }
        None
    }
}

// ------------------------------------------------------------------------------------------------ writer
pub mod writer_driver {
    use super::*;
    use embedded_cli::writer::Writer;

    #[derive(Default)]
    pub struct Sink(pub Vec<u8>);
    impl embedded_io::ErrorType for Sink {
        type Error = core::convert::Infallible;
    }
    impl embedded_io::Write for Sink {
        fn write(&mut self, b: &[u8]) -> Result<usize, Self::Error> {
            self.0.extend_from_slice(b);
            Ok(b.len())
        }
        fn flush(&mut self) -> Result<(), Self::Error> {
            Ok(())
        }
    }

    pub fn lf_to_crlf(s: &str) -> Vec<u8> {
        let mut v = Vec::new();
        for &b in s.as_bytes() {
            if b == b'\n' {
                v.push(b'\r');
            }
            v.push(b);
        }
        v
    }

    pub fn run(r: &mut Rng, iters: usize) -> Option<Cex> {
        let alpha = ['a', '\n', '\r', 'é', ' '];
        for _ in 0..iters.max(50000) {
            let mut sink = Sink::default();
            let mut exp = Vec::new();
            let mut trace = String::new();
            let dirty;
            {
                let mut w = Writer::new(&mut sink);
                for _ in 0..r.below(5) {
                    let t = rand_string(r, &alpha, 4);
                    let k = r.below(9);
                    if k < 3 {
                        write!(trace, " writeln_str({:?})", t).unwrap();
                        crate::note(&trace);
                        w.writeln_str(&t).unwrap();
                        exp.extend(lf_to_crlf(&t));
                        exp.extend(b"\r\n");
                    } else if k == 3 {
                        // formatted writes (C13: "via write_str, writeln_str and formatted writes"): core::fmt, text and chars
                        write!(trace, " write!(\"{{}}\", {:?})", t).unwrap();
                        crate::note(&trace);
                        core::fmt::Write::write_fmt(&mut w, format_args!("{}", t)).unwrap();
                        exp.extend(lf_to_crlf(&t));
                    } else if k == 4 {
                        for c in t.chars() {
                            write!(trace, " write!(\"{{}}\", {:?})", c).unwrap();
                            crate::note(&trace);
                            core::fmt::Write::write_fmt(&mut w, format_args!("{}", c)).unwrap();
                        }
                        exp.extend(lf_to_crlf(&t));
                    } else if k == 5 {
                        // ... and ufmt
                        write!(trace, " uwrite!(\"{{}}\", {:?})", t).unwrap();
                        crate::note(&trace);
                        ufmt::uwrite!(&mut w, "{}", t.as_str()).unwrap();
                        exp.extend(lf_to_crlf(&t));
                    } else if k == 6 {
                        for c in t.chars() {
                            write!(trace, " uwrite!(\"{{}}\", {:?})", c).unwrap();
                            crate::note(&trace);
                            ufmt::uwrite!(&mut w, "{}", c).unwrap();
                        }
                        exp.extend(lf_to_crlf(&t));
                    } else {
                        write!(trace, " write_str({:?})", t).unwrap();
                        crate::note(&trace);
                        w.write_str(&t).unwrap();
                        exp.extend(lf_to_crlf(&t));
                    }
                }
                dirty = w.is_dirty();
            }
            if sink.0 != exp {
                return Some(Cex { input: trace, expected: esc(&exp), actual: esc(&sink.0) });
            }
            let e = !exp.is_empty() && *exp.last().unwrap() != b'\n';
            if dirty != e {
                return Some(Cex { input: trace, expected: format!("is_dirty()={}", e), actual: format!("{}", dirty) });
            }
        }
        None
    }
}

fn j(s: &str) -> String {
    let mut o = String::from("\"");
    for c in s.chars() {
        match c {
            '"' => o.push_str("\\\""),
            '\\' => o.push_str("\\\\"),
            c if (c as u32) < 0x20 => write!(o, "\\u{:04x}", c as u32).unwrap(),
            c => o.push(c),
        }
    }
    o.push('"');
    o
}

fn main() {
    {
        let driver = std::env::args().nth(1).unwrap_or_default();
        std::panic::set_hook(Box::new(move |info| {
            let loc = info.location().map(|l| format!("{}:{}", l.file(), l.line())).unwrap_or_default();
            let msg = info.payload().downcast_ref::<&str>().map(|s| s.to_string()).or_else(|| info.payload().downcast_ref::<String>().cloned()).unwrap_or_default();
            let cur = CURRENT.with(|c| c.try_borrow().map(|c| c.clone()).unwrap_or_default());
            println!(
                "{{\"driver\": {}, \"found\": true, \"input\": {}, \"expected\": \"no panic\", \"actual\": {}, \"location\": {}}}",
                j(&driver),
                j(&cur),
                j(&format!("panicked at {}: {}", loc, msg)),
                j(&loc)
            );
            eprintln!("panicked at {}: {}", loc, msg);
        }));
    }
    let args: Vec<String> = std::env::args().collect();
    let driver = args.get(1).map(|s| s.as_str()).unwrap_or("");
    let seed: u64 = args.get(2).and_then(|s| s.parse().ok()).unwrap_or(1);
    let iters: usize = args.get(3).and_then(|s| s.parse().ok()).unwrap_or(20000);
    let mut r = Rng(seed.wrapping_mul(0x9E3779B97F4A7C15) | 1);
    let res = match driver {
        "decoder" => decoder::run(&mut r, iters),
        "scalars" => decoder::run_scalars(),
        "utils" => utils_driver::run(&mut r, iters),
        "token" => token_driver::run(&mut r, iters),
        "editor" => editor_driver::run(&mut r, iters),
        #[cfg(feature = "history")]
        "history" => history_driver::run(&mut r, iters),
        #[cfg(feature = "autocomplete")]
        "autocomplete" => ac_driver::run(&mut r, iters),
        "writer" => writer_driver::run(&mut r, iters),
        #[cfg(all(feature = "help", feature = "autocomplete", feature = "history"))]
        "derive_help" => derive_driver::run(&mut r, iters),
        #[cfg(all(feature = "help", feature = "autocomplete", feature = "history"))]
        "derive_fail" => derive_driver::run_fail(&mut r, iters),
        "derive_hidden" => hidden_driver::run(&mut r, iters),
        "derive_parse" => parse_driver::run(&mut r, iters),
        "cli" => cli_driver::run(&mut r, iters, ""),
        d if d.starts_with("cli:") => cli_driver::run(&mut r, iters, &d[4..]),
        _ => {
            println!("{{\"driver\": {:?}, \"error\": \"unknown or disabled driver\"}}", driver);
            std::process::exit(2);
        }
    };
    match res {
        None => println!("{{\"driver\": {}, \"found\": false}}", j(driver)),
        Some(c) => println!(
            "{{\"driver\": {}, \"found\": true, \"input\": {}, \"expected\": {}, \"actual\": {}}}",
            j(driver),
            j(&c.input),
            j(&c.expected),
            j(&c.actual)
        ),
    }
    let _ = Rc::new(RefCell::new(0));
}
