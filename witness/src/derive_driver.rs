//! BOUNDED stand-in for the part of C12 that is output of the derive macros (help listing and per-command help):
//! one fixed declaration (two groups, one of them hidden, nested sub-commands, flags, value options, positionals),
//! every command path, with options (and their values) interleaved in every position that the declaration allows.
//! What is checked is what the statement of C12 says, not the exact layout.
use super::*;
use crate::cli_driver::{Handler, Sink, SinkErr, SinkEv, SinkState};
use embedded_cli::cli::CliBuilder;
use embedded_cli::{Command, CommandGroup};

#[derive(Debug, Command)]
enum Base<'a> {
    /// Base command
    #[command(name = "base1")]
    Base1 {
        /// Optional argument
        #[arg(short, long)]
        name: Option<&'a str>,
        /// Some level
        #[arg(short, long)]
        level: Option<u8>,
        /// Make things verbose
        #[arg(short)]
        verbose: bool,
        #[command(subcommand)]
        command: Sub1<'a>,
    },
    /// Another base command
    #[command(name = "base2", subcommand)]
    Base2(Sub2<'a>),
    /// Leave
    Exit,
}

#[derive(Debug, Command)]
enum Sub1<'a> {
    /// Get something
    Get {
        /// Optional item
        #[arg(short, long)]
        item: Option<&'a str>,
        /// Another verbose flag
        #[arg(short, long)]
        verbose: bool,
        #[command(subcommand)]
        command: SubSub<'a>,
    },
    /// Set something
    Set {
        /// Another required value
        value: &'a str,
    },
}

#[derive(Debug, Command)]
enum SubSub<'a> {
    /// Command something
    Cmd {
        /// Very optional item
        #[arg(short, long)]
        item: Option<&'a str>,
        /// Required positional
        file: &'a str,
    },
    /// Test something
    Test {
        /// Tested required value
        value: &'a str,
    },
}

#[derive(Debug, Command)]
enum Sub2<'a> {
    /// Write something
    Write {
        /// Required line to write
        line: &'a str,
    },
    /// Connect somewhere (an option whose short name collides with the built-in -h)
    Connect {
        /// Remote host
        #[arg(short, long)]
        host: Option<&'a str>,
        /// Port number
        #[arg(short, long)]
        port: Option<u16>,
    },
}

#[derive(Debug, Command)]
enum Other {
    /// Show status
    Status,
    /// Restart the device
    Reboot,
}

#[derive(Debug, Command)]
enum Secret {
    /// Factory reset
    Wipe,
}

#[derive(Debug, CommandGroup)]
enum Group<'a> {
    Base(Base<'a>),
    #[group(hidden)]
    Secret(Secret),
    Other(Other),
}

/// the declaration above, as data: (name, summary, options (short, long, value name), positionals, sub-commands)
struct Decl {
    name: &'static str,
    summary: &'static str,
    opts: &'static [(Option<char>, Option<&'static str>, Option<&'static str>)],
    pos: &'static [&'static str],
    subs: &'static [Decl],
}

const SUBSUB: &[Decl] = &[
    Decl { name: "cmd", summary: "Command something", opts: &[(Some('i'), Some("item"), Some("ITEM"))], pos: &["FILE"], subs: &[] },
    Decl { name: "test", summary: "Test something", opts: &[], pos: &["VALUE"], subs: &[] },
];
const SUB1: &[Decl] = &[
    Decl { name: "get", summary: "Get something", opts: &[(Some('i'), Some("item"), Some("ITEM")), (Some('v'), Some("verbose"), None)], pos: &[], subs: SUBSUB },
    Decl { name: "set", summary: "Set something", opts: &[], pos: &["VALUE"], subs: &[] },
];
const SUB2: &[Decl] = &[
    Decl { name: "write", summary: "Write something", opts: &[], pos: &["LINE"], subs: &[] },
    Decl { name: "connect", summary: "Connect somewhere", opts: &[(None, Some("host"), Some("HOST")), (Some('p'), Some("port"), Some("PORT"))], pos: &[], subs: &[] },
];
const VISIBLE: &[Decl] = &[
    Decl {
        name: "base1",
        summary: "Base command",
        opts: &[(Some('n'), Some("name"), Some("NAME")), (Some('l'), Some("level"), Some("LEVEL")), (Some('v'), None, None)],
        pos: &[],
        subs: SUB1,
    },
    Decl { name: "base2", summary: "Another base command", opts: &[], pos: &[], subs: SUB2 },
    Decl { name: "exit", summary: "Leave", opts: &[], pos: &[], subs: &[] },
    Decl { name: "status", summary: "Show status", opts: &[], pos: &[], subs: &[] },
    Decl { name: "reboot", summary: "Restart the device", opts: &[], pos: &[], subs: &[] },
];

fn run_line(line: &str) -> Result<(String, usize), String> {
    let sink = Sink(Rc::new(RefCell::new(SinkState::default())));
    let calls = Rc::new(RefCell::new(Vec::new()));
    let mut handler = Handler { calls: calls.clone(), outputs: vec![vec![]], n: 0 };
    let cbuf: &'static mut [u8] = Box::leak(vec![0u8; 128].into_boxed_slice());
    let hbuf: &'static mut [u8] = Box::leak(vec![0u8; 16].into_boxed_slice());
    let mut cli = CliBuilder::default().writer(sink.clone()).command_buffer(cbuf).history_buffer(hbuf).prompt("$ ").build().map_err(|_| "build failed".to_string())?;
    for &b in line.as_bytes().iter().chain(b"\r".iter()) {
        cli.process_byte::<Group<'_>, _>(b, &mut handler).map_err(|_| "process_byte failed".to_string())?;
    }
    let mut out = Vec::new();
    for e in &sink.0.borrow().evs {
        if let SinkEv::W(b) = e {
            out.extend_from_slice(b)
        }
    }
    let s = String::from_utf8(out).map_err(|_| "output is not UTF-8".to_string())?;
    // what was printed between the echoed line and the next prompt
    let echoed = format!("$ {}\r\n", line);
    let body = s.strip_prefix(&echoed).ok_or_else(|| format!("unexpected echo {:?}", s))?;
    let body = body.strip_suffix("$ ").ok_or_else(|| format!("no prompt at the end of {:?}", s))?;
    let n = calls.borrow().len();
    Ok((body.replace("\r\n", "\n"), n))
}

fn check_listing() -> Option<Cex> {
    let (out, calls) = match run_line("help") {
        Ok(x) => x,
        Err(e) => return Some(Cex { input: "help".into(), expected: "command listing".into(), actual: e }),
    };
    if calls != 0 {
        return Some(Cex { input: "help".into(), expected: "handler not called".into(), actual: format!("{} calls", calls) });
    }
    for d in VISIBLE {
        let n = out.lines().filter(|l| l.split_whitespace().next() == Some(d.name)).count();
        let with_summary = out.lines().any(|l| l.split_whitespace().next() == Some(d.name) && l.contains(d.summary));
        if n != 1 || !with_summary {
            return Some(Cex { input: "help".into(), expected: format!("{:?} listed exactly once with its summary {:?}", d.name, d.summary), actual: out });
        }
    }
    if out.contains("wipe") {
        return Some(Cex { input: "help".into(), expected: "hidden group not listed".into(), actual: out });
    }
    None
}

fn check_help(line: &str, path: &[&str], d: Option<&Decl>) -> Option<Cex> {
    let (out, calls) = match run_line(line) {
        Ok(x) => x,
        Err(e) => return Some(Cex { input: line.into(), expected: "help text".into(), actual: e }),
    };
    if calls != 0 {
        return Some(Cex { input: line.into(), expected: "handler not called for a help request".into(), actual: format!("{} calls", calls) });
    }
    let d = match d {
        None => {
            if out.trim_end() != "error: unknown command" {
                return Some(Cex { input: line.into(), expected: "error: unknown command".into(), actual: out });
            }
            return None;
        }
        Some(d) => d,
    };
    let mut missing = Vec::new();
    if !out.contains(d.summary) {
        missing.push(format!("description {:?}", d.summary));
    }
    let usage = format!("Usage: {}", path.join(" "));
    if !out.lines().any(|l| l.starts_with(&usage) && (l.len() == usage.len() || l[usage.len()..].starts_with(' '))) {
        missing.push(format!("usage line {:?}", usage));
    }
    for (s, l, v) in d.opts {
        if let Some(s) = s {
            if !out.contains(&format!("-{}", s)) {
                missing.push(format!("option -{}", s));
            }
        }
        if let Some(l) = l {
            if !out.contains(&format!("--{}", l)) {
                missing.push(format!("option --{}", l));
            }
        }
        if let Some(v) = v {
            if !out.contains(v) {
                missing.push(format!("value name {}", v));
            }
        }
    }
    for p in d.pos {
        if !out.contains(&format!("<{}>", p)) {
            missing.push(format!("positional <{}>", p));
        }
    }
    for s in d.subs {
        if !out.lines().any(|l| l.split_whitespace().next() == Some(s.name)) {
            missing.push(format!("sub-command {}", s.name));
        }
    }
    if !missing.is_empty() {
        return Some(Cex { input: line.into(), expected: format!("help of `{}` showing {}", path.join(" "), missing.join(", ")), actual: out });
    }
    None
}

/// all ways to write the options of one level (none, each flag, each value option with a value, pairs)
fn option_variants(d: &Decl) -> Vec<Vec<String>> {
    let mut singles: Vec<Vec<String>> = Vec::new();
    for (s, l, v) in d.opts {
        let mut forms = Vec::new();
        if let Some(s) = s {
            forms.push(format!("-{}", s));
        }
        if let Some(l) = l {
            forms.push(format!("--{}", l));
        }
        for f in forms {
            match v {
                Some(_) => singles.push(vec![f, "7".to_string()]),
                None => singles.push(vec![f]),
            }
        }
    }
    let mut res = vec![vec![]];
    res.extend(singles.iter().cloned());
    for a in &singles {
        for b in &singles {
            if a[0] != b[0] {
                let mut x = a.clone();
                x.extend(b.iter().cloned());
                res.push(x);
            }
        }
    }
    res
}

fn walk(prefix_tokens: &[String], path: &mut Vec<&'static str>, decls: &'static [Decl], count: &mut usize) -> Option<Cex> {
    for d in decls {
        path.push(d.name);
        for ov in option_variants(d) {
            let mut toks = prefix_tokens.to_vec();
            toks.push(d.name.to_string());
            // help for this command, asked with the options of the outer levels in place
            for form in ["--help", "-h"] {
                let line = format!("{} {}", toks.join(" "), form);
                *count += 1;
                if let Some(c) = check_help(&line, path, Some(d)) {
                    return Some(c);
                }
            }
            let line = format!("help {}", toks.join(" "));
            *count += 1;
            if let Some(c) = check_help(&line, path, Some(d)) {
                return Some(c);
            }
            if !d.subs.is_empty() {
                toks.extend(ov.iter().cloned());
                if let Some(c) = walk(&toks, path, d.subs, count) {
                    return Some(c);
                }
            }
        }
        // an unknown sub-command under this command
        if !d.subs.is_empty() {
            let line = format!("{} {} bogus --help", prefix_tokens.join(" "), d.name);
            if let Some(c) = check_help(line.trim_start(), path, None) {
                return Some(c);
            }
        }
        path.pop();
    }
    None
}

pub fn run(_r: &mut Rng, _iters: usize) -> Option<Cex> {
    if let Some(c) = check_listing() {
        return Some(c);
    }
    let mut count = 0;
    let mut path = Vec::new();
    if let Some(c) = walk(&[], &mut path, VISIBLE, &mut count) {
        return Some(c);
    }
    for line in ["wipe --help", "help wipe", "nosuch --help", "help nosuch", "help nosuch more"] {
        if let Some(c) = check_help(line, &[], None) {
            return Some(c);
        }
    }
    None
}

/// BOUNDED: a sink that fails once, at every position, while help is printed for commands of either group: the call
/// during which it failed must return the error (C14 for the help code the derive macros emit)
pub fn run_fail(_r: &mut Rng, _iters: usize) -> Option<Cex> {
    for line in ["help", "base1 --help", "help base1 get", "status --help", "help reboot", "base1 -n 7 get cmd -h", "nosuch --help"] {
        for fail_at in 1..200usize {
            let sink = Sink(Rc::new(RefCell::new(SinkState::default())));
            sink.0.borrow_mut().fail_at = Some(fail_at);
            let calls = Rc::new(RefCell::new(Vec::new()));
            let mut handler = Handler { calls: calls.clone(), outputs: vec![vec![]], n: 0 };
            let cbuf: &'static mut [u8] = Box::leak(vec![0u8; 64].into_boxed_slice());
            let hbuf: &'static mut [u8] = Box::leak(vec![0u8; 16].into_boxed_slice());
            let mut cli = match CliBuilder::default().writer(sink.clone()).command_buffer(cbuf).history_buffer(hbuf).prompt("$ ").build() {
                Ok(c) => c,
                Err(_) => continue,
            };
            let mut reached = false;
            for &b in line.as_bytes().iter().chain(b"\r".iter()) {
                let before = sink.0.borrow().failed;
                let res = cli.process_byte::<Group<'_>, _>(b, &mut handler);
                let failed_now = sink.0.borrow().failed > before;
                if failed_now {
                    reached = true;
                }
                if failed_now && res.is_ok() {
                    let mut out = Vec::new();
                    for e in &sink.0.borrow().evs {
                        if let SinkEv::W(b) = e {
                            out.extend_from_slice(b)
                        }
                    }
                    return Some(Cex {
                        input: format!("line {:?}, sink fails at its operation {} (during byte {:#04x})", line, fail_at, b),
                        expected: "Err from the call during which the sink failed".into(),
                        actual: format!("Ok(()); terminal received {:?}", String::from_utf8_lossy(&out)),
                    });
                }
                if res.is_err() != failed_now {
                    return Some(Cex { input: format!("line {:?}, sink fails at operation {}", line, fail_at), expected: "Err iff the sink failed".into(), actual: format!("{:?}", res.is_ok()) });
                }
            }
            if !reached {
                break;
            }
        }
    }
    None
}
