//! End-to-end driver: random key sequences through the real `Cli` against a model of the whole session written from
//! the property statements (ideal editor, history, tokenizer, help routing, output framing, terminal emulator).
//! `only` restricts which class of discrepancy is reported ("C01", "C06", "C13", "C14", "C15", ... or "" for all).
use super::*;
use crate::decoder::{Ev, Ref};
use crate::token_driver::{classify, tokenize, wants_help, Item};
use embedded_cli::cli::{CliBuilder, CliHandle};
use embedded_cli::command::RawCommand;
use embedded_cli::service::{CommandProcessor, ProcessError};

/// command sets the sessions are run with: the raw one (no names) and a derived one with ASCII and non-ASCII names,
/// non-adjacent names sharing a prefix, and names sharing UTF-8 lead bytes
pub trait Names {
    const NAMES: &'static [&'static str];
}
impl Names for RawCommand<'static> {
    const NAMES: &'static [&'static str] = &[];
}
#[derive(embedded_cli::Command, Debug)]
pub enum Derived {
    #[command(name = "öffne")]
    Oeffne,
    Get,
    Set,
    GetLed,
    GetAdc,
    #[command(name = "старт")]
    Start,
    #[command(name = "стоп")]
    Stop,
    Exit,
    // two names that share more with each other than with the built-in `help`
    HexDump,
    HexLoad,
}
impl Names for Derived {
    const NAMES: &'static [&'static str] = &["öffne", "get", "set", "get-led", "get-adc", "старт", "стоп", "exit", "hex-dump", "hex-load"];
}

/// transcription of specs/80_autocomplete_spec.rs merge_step, folded over the candidates
#[cfg(feature = "autocomplete")]
fn merge_all(cands: &[String], room: usize) -> (Option<String>, bool) {
    let mut auto: Option<String> = None;
    let mut partial = false;
    for c in cands {
        if c.is_empty() || room == 0 {
            partial = partial || auto.is_some() || (room == 0 && !c.is_empty());
            auto = Some(String::new());
            continue;
        }
        let len = match &auto {
            Some(cur) => {
                let mut n = 0;
                for (x, y) in c.chars().zip(cur.chars()) {
                    if x != y {
                        break;
                    }
                    n += x.len_utf8();
                }
                n
            }
            None => {
                let mut n = c.len().min(room);
                while !c.is_char_boundary(n) {
                    n -= 1;
                }
                n
            }
        };
        partial = partial || len < c.len() || auto.is_some();
        auto = Some(c[..len].to_string());
    }
    (auto, partial)
}

#[derive(Clone, Debug, PartialEq)]
pub enum SinkEv {
    W(Vec<u8>),
    F,
}

#[derive(Default)]
pub struct SinkState {
    pub evs: Vec<SinkEv>,
    pub ops: usize,
    pub fail_at: Option<usize>,
    pub failed: usize,
    /// the failing operation reports ErrorKind::Interrupted instead of Other
    pub interrupted: bool,
}

#[derive(Clone)]
pub struct Sink(pub Rc<RefCell<SinkState>>);

#[derive(Debug)]
pub struct SinkErr(pub bool);
impl embedded_io::Error for SinkErr {
    fn kind(&self) -> embedded_io::ErrorKind {
        // what kind of error the sink reports must not matter to the library
        if self.0 {
            embedded_io::ErrorKind::Interrupted
        } else {
            embedded_io::ErrorKind::Other
        }
    }
}
impl embedded_io::ErrorType for Sink {
    type Error = SinkErr;
}
impl embedded_io::Write for Sink {
    fn write(&mut self, b: &[u8]) -> Result<usize, SinkErr> {
        let mut s = self.0.borrow_mut();
        s.ops += 1;
        if s.fail_at == Some(s.ops) {
            s.failed += 1;
            return Err(SinkErr(s.interrupted));
        }
        s.evs.push(SinkEv::W(b.to_vec()));
        Ok(b.len())
    }
    fn flush(&mut self) -> Result<(), SinkErr> {
        let mut s = self.0.borrow_mut();
        s.ops += 1;
        if s.fail_at == Some(s.ops) {
            s.failed += 1;
            return Err(SinkErr(s.interrupted));
        }
        s.evs.push(SinkEv::F);
        Ok(())
    }
}

pub struct Handler {
    pub calls: Rc<RefCell<Vec<(String, Vec<Item>)>>>,
    pub outputs: Vec<Vec<String>>,
    pub n: usize,
}
impl CommandProcessor<Sink, SinkErr> for Handler {
    fn process<'a>(&mut self, cli: &mut CliHandle<'_, Sink, SinkErr>, raw: RawCommand<'a>) -> Result<(), ProcessError<'a, SinkErr>> {
        let items = crate::token_driver::real_items(&raw.args());
        self.calls.borrow_mut().push((crate::lib_str(raw.name()).to_string(), items));
        let out = self.outputs[self.n % self.outputs.len()].clone();
        self.n += 1;
        for t in out {
            cli.writer().write_str(&t)?;
        }
        // a handler that rejects the line after having produced its output: the library prints the error itself
        if raw.name() == "cmd" {
            return Err(ProcessError::ParseError(embedded_cli::service::ParseError::UnknownCommand));
        }
        Ok(())
    }
}

/// ECMA-48 terminal, current line only (width-1 characters, no wrapping)
#[derive(Default, Clone)]
pub struct Term {
    pub cells: Vec<char>,
    pub col: usize,
    pub fresh_lines: usize,
}
impl Term {
    pub fn feed(&mut self, text: &str) -> Result<(), String> {
        let cs: Vec<char> = text.chars().collect();
        let mut i = 0;
        while i < cs.len() {
            let c = cs[i];
            if c == '\x1b' {
                if i + 1 < cs.len() && cs[i + 1] == '[' {
                    let mut j = i + 2;
                    while j < cs.len() && !('\x40'..='\x7e').contains(&cs[j]) {
                        j += 1;
                    }
                    if j >= cs.len() {
                        return Err("unterminated CSI".into());
                    }
                    let params: String = cs[i + 2..j].iter().collect();
                    match (params.as_str(), cs[j]) {
                        ("2", 'K') => self.cells.clear(),
                        ("", 'C') => self.col += 1,
                        ("", 'D') => self.col = self.col.saturating_sub(1),
                        ("", '@') => {
                            if self.col < self.cells.len() {
                                self.cells.insert(self.col, ' ')
                            }
                        }
                        ("", 'P') => {
                            if self.col < self.cells.len() {
                                self.cells.remove(self.col);
                            }
                        }
                        (p, f) => return Err(format!("unexpected CSI {:?} {:?}", p, f)),
                    }
                    i = j + 1;
                    continue;
                }
                return Err("lone ESC".into());
            }
            match c {
                '\r' => self.col = 0,
                '\n' => {
                    self.cells.clear();
                    self.fresh_lines += 1;
                }
                c if c >= ' ' => {
                    while self.cells.len() <= self.col {
                        self.cells.push(' ');
                    }
                    self.cells[self.col] = c;
                    self.col += 1;
                }
                c => return Err(format!("unexpected control U+{:04X}", c as u32)),
            }
            i += 1;
        }
        Ok(())
    }
    pub fn shown(&self) -> String {
        let s: String = self.cells.iter().collect();
        s.trim_end_matches(' ').to_string()
    }
}

fn bytes_of(evs: &[SinkEv]) -> Vec<u8> {
    let mut v = Vec::new();
    for e in evs {
        if let SinkEv::W(b) = e {
            v.extend_from_slice(b)
        }
    }
    v
}

pub struct Model {
    pub line: Vec<char>,
    pub cur: usize,
    pub cap: usize,
    #[cfg(feature = "history")]
    pub hist: crate::history_driver::Model,
}

impl Model {
    fn bytes(&self) -> usize {
        self.line.iter().map(|c| c.len_utf8()).sum()
    }
    fn text(&self) -> String {
        self.line.iter().collect()
    }
    fn set_line(&mut self, s: &str) {
        if s.len() <= self.cap {
            self.line = s.chars().collect();
        } else {
            self.line.clear();
        }
        self.cur = self.line.len();
    }
}

const KEYS: &[&[u8]] = &[
    b"a", b"b", b" ", b"-", b"h", b"\"", b"\\", "é".as_bytes(), "€".as_bytes(), "😀".as_bytes(), b"\x08", b"\x09", b"\r", b"\n", b"\r\n", b"\x1b[A",
    b"\x1b[B", b"\x1b[C", b"\x1b[D", b"\x1b[D", b"\x1b[1;5C", b"\x1b[3~", b"\x00", b"\x1b", b"\x7f", b"\xc3", b"\xa9", b"\xff", b"help", b"he", b"--help",
    b"-h", b"--", b"cmd", b"\"\"", b"g", b"ge", b"get-", b"s", b"e", b"get-  \x1b[D\x1b[D\x09", "ст   \x1b[D\x1b[D\x09".as_bytes(), b"get \x1b[D\x09", "ö".as_bytes(), "ст".as_bytes(), "с".as_bytes(), b"\x09", b"\x09",
    "à".as_bytes(), "Р".as_bytes(), "х".as_bytes(), "\u{a0}he".as_bytes(), "\u{3000}".as_bytes(),
    // navigation and submission keys once more: histories of several lines and recalls need them in a row
    b"\x1b[A", b"\x1b[A", b"\x1b[B", b"\r", b"\n", b"\x08",
];

#[derive(Clone, Debug)]
enum Step {
    Byte(u8),
    SetPrompt(&'static str),
    Write(Vec<&'static str>),
}

fn pick_keys(r: &mut Rng, n: usize) -> Vec<Step> {
    let mut v = Vec::new();
    for _ in 0..n {
        match r.below(24) {
            0 => v.push(Step::SetPrompt(["> ", "", "cli# "][r.below(3)])),
            1 => v.push(Step::Write([vec!["msg"], vec!["a\nb\n"], vec![], vec!["x", "\n", "y"], vec![""]][r.below(5)].clone())),
            _ => {
                for &b in KEYS[r.below(KEYS.len())] {
                    v.push(Step::Byte(b));
                }
            }
        }
    }
    v
}

fn want(only: &str, p: &str) -> bool {
    only.is_empty() || only == p
}

pub fn run(r: &mut Rng, iters: usize, only: &str) -> Option<Cex> {
    // (sessions are cheap: four times the nominal iteration count)
    for it in 0..iters.max(3000) * 4 {
        let c = if it % 2 == 0 { one_session::<RawCommand<'static>>(r, it, only) } else { one_session::<Derived>(r, it, only) };
        if c.is_some() {
            return c;
        }
    }
    None
}

fn one_session<C: Names + embedded_cli::service::Autocomplete + embedded_cli::service::Help>(r: &mut Rng, it: usize, only: &str) -> Option<Cex> {
    let cap = if it % 4 == 0 { r.below(8) } else { 8 + r.below(24) };
    let hcap = if it % 5 == 0 { r.below(6) } else { r.below(40) };
    // a sink that fails once: always when looking for C14, now and then otherwise (C15: what is written after a failed
    // call must still be flushed)
    let inject = (want(only, "C14") && (only == "C14" || it % 3 == 0)) || ((only == "C15" || only == "C04") && it % 3 == 0);
    let sink = Sink(Rc::new(RefCell::new(SinkState::default())));
    if inject {
        sink.0.borrow_mut().fail_at = Some(1 + r.below(60));
        sink.0.borrow_mut().interrupted = it % 2 == 1;
    }
    let calls = Rc::new(RefCell::new(Vec::new()));
    let outs: Vec<Vec<String>> = vec![
        vec![],
        vec!["out".into()],
        vec!["a\nb".into()],
        vec!["line\n".into()],
        vec!["x".into(), "".into()],
        vec!["\n".into()],
        vec!["p\r\n".into(), "q".into()],
    ];
    let mut handler = Handler { calls: calls.clone(), outputs: vec![outs[r.below(outs.len())].clone(), outs[r.below(outs.len())].clone()], n: 0 };
    let cbuf: &'static mut [u8] = Box::leak(vec![0u8; cap].into_boxed_slice());
    let hbuf: &'static mut [u8] = Box::leak(vec![0u8; hcap].into_boxed_slice());
    let prompt: &'static str = if it % 2 == 0 { "$ " } else { "" };
    let prompt0 = prompt;
    // every eighth session is built with the deprecated constructor (default prompt "$ "), the others with the builder
    let legacy = it % 8 == 2;
    #[allow(deprecated)]
    let built = if legacy {
        embedded_cli::cli::Cli::new(sink.clone(), cbuf, hbuf)
    } else {
        CliBuilder::default().writer(sink.clone()).command_buffer(cbuf).history_buffer(hbuf).prompt(prompt0).build()
    };
    let mut trace = format!(
        "{}commands={} cmd_buf={} hist_buf={} prompt={:?} fail_at_op={:?} keys=",
        if legacy { "constructor=Cli::new " } else { "" },
        if it % 2 == 0 { "raw" } else { "derived[öffne,get,set,get-led,get-adc,старт,стоп,exit,hex-dump,hex-load]" },
        cap,
        hcap,
        prompt,
        sink.0.borrow().fail_at
    );
    crate::note(&trace);
    let mut cli = match built {
        Ok(c) => c,
        Err(_) => {
            if sink.0.borrow().failed == 0 {
                return Some(Cex { input: trace, expected: "build() Ok".into(), actual: "Err without sink failure".into() });
            }
            return None;
        }
    };
    let mut term = Term::default();
    let mut fed = 0usize;
    let mut m = Model {
        line: vec![],
        cur: 0,
        cap,
        #[cfg(feature = "history")]
        hist: crate::history_driver::Model { cap: hcap, ..Default::default() },
    };
    let mut dec = Ref::default();
    let mut exp_calls: Vec<(String, Vec<Item>)> = Vec::new();
    let mut desync = false; // after a sink failure the terminal contents are no longer defined
    let nkeys = 1 + r.below(30);
    let keys = pick_keys(r, nkeys);
    {
        // initial prompt
        let evs = sink.0.borrow().evs.clone();
        if want(only, "C15") && !evs.is_empty() && evs.last() != Some(&SinkEv::F) {
            return Some(Cex { input: trace, expected: "flush after the initial prompt".into(), actual: format!("{:?}", evs) });
        }
        // C06 / C15: a freshly built CLI has put its prompt on the terminal
        if !prompt.is_empty() && bytes_of(&evs) != prompt.as_bytes() && (want(only, "C06") || want(only, "C15")) {
            return Some(Cex { input: trace, expected: format!("the prompt {:?} written and flushed by the constructor", prompt), actual: esc(&bytes_of(&evs)) });
        }
    }
    let mut prompt: &'static str = prompt;
    for step in &keys {
        let n_evs_before = sink.0.borrow().evs.len();
        let failed_before = sink.0.borrow().failed;
        let b = match step {
            Step::Byte(b) => *b,
            other => {
                // API calls between keys: prompt change, application output while a line is being edited
                write!(trace, " {:?} ", other).unwrap();
                crate::note(&trace);
                let (res, exp_delta) = match other {
                    Step::SetPrompt(p) => {
                        prompt = p;
                        (cli.set_prompt(p), None)
                    }
                    Step::Write(parts) => {
                        let res = cli.write(|w| {
                            for t in parts {
                                w.write_str(t)?;
                            }
                            Ok(())
                        });
                        let mut e = b"\r\x1b[2K".to_vec();
                        let mut body = Vec::new();
                        for t in parts {
                            body.extend(crate::writer_driver::lf_to_crlf(t));
                        }
                        e.extend(&body);
                        if !body.is_empty() && *body.last().unwrap() != b'\n' {
                            e.extend(b"\r\n");
                        }
                        e.extend(prompt.as_bytes());
                        e.extend(m.text().as_bytes());
                        (res, Some(e))
                    }
                    Step::Byte(_) => unreachable!(),
                };
                let st = sink.0.borrow();
                let delta: Vec<SinkEv> = st.evs[n_evs_before..].to_vec();
                let failed_now = st.failed > failed_before;
                drop(st);
                if failed_now != res.is_err() && want(only, "C14") {
                    return Some(Cex { input: trace, expected: format!("Err iff the sink failed ({})", failed_now), actual: format!("{:?}", res.is_ok()) });
                }
                if failed_now {
                    desync = true;
                    continue;
                }
                if let Some(e) = exp_delta {
                    let a = bytes_of(&delta);
                    // what follows the redisplayed line may only move the cursor
                    if !a.starts_with(&e) && want(only, "C13") {
                        return Some(Cex { input: trace, expected: format!("sink receives {}", esc(&e)), actual: esc(&a) });
                    }
                }
                if !delta.is_empty() && delta.last() != Some(&SinkEv::F) && want(only, "C15") {
                    return Some(Cex { input: trace, expected: "last sink operation of the call is a flush".into(), actual: format!("{:?}", delta) });
                }
                let (rt, rc) = match cli.editor.as_ref() {
                    Some(e) => (crate::lib_str(e.text()).to_string(), e.cursor()),
                    None => {
                        // the session lost its editor (only possible after a failed call): C14 says the CLI stays usable
                        if want(only, "C14") {
                            return Some(Cex { input: trace, expected: "the CLI keeps its line editor after every call (usable session)".into(), actual: "Cli.editor is None".into() });
                        }
                        desync = true;
                        (m.text(), m.cur)
                    }
                };
                if (rt.clone(), rc) != (m.text(), m.cur) && (want(only, "C13") || want(only, "C05")) {
                    return Some(Cex { input: trace, expected: format!("line {:?} cursor {} untouched", m.text(), m.cur), actual: format!("line {:?} cursor {}", rt, rc) });
                }
                // C06, and for an application write also C13: the line and the cursor are shown again below the output
                if !desync && (want(only, "C06") || (matches!(other, Step::Write(_)) && want(only, "C13"))) {
                    let all = bytes_of(&sink.0.borrow().evs);
                    if let Ok(s) = std::str::from_utf8(&all[fed..]) {
                        if term.feed(s).is_ok() {
                            fed = all.len();
                            let e = (prompt.to_string() + &rt).trim_end_matches(' ').to_string();
                            let ecol = prompt.chars().count() + rc;
                            if term.shown() != e || term.col != ecol {
                                return Some(Cex {
                                    input: trace,
                                    expected: format!("terminal line {:?} cursor column {}", e, ecol),
                                    actual: format!("terminal line {:?} cursor column {}", term.shown(), term.col),
                                });
                            }
                        } else {
                            desync = true;
                        }
                    } else {
                        desync = true;
                    }
                }
                continue;
            }
        };
        write!(trace, "\\x{:02x}", b).unwrap();
        crate::note(&trace);
        let ev = dec.step(b);
        let before = (m.text(), m.cur);
        #[cfg(feature = "history")]
        let hist_before = m.hist.clone();
        // ---- model step
        let mut enter_line: Option<String> = None;
        match &ev {
            Some(Ev::Char(bytes)) => {
                let s = String::from_utf8(bytes.clone()).unwrap();
                if m.bytes() + s.len() <= m.cap {
                    let c = s.chars().next().unwrap();
                    m.line.insert(m.cur, c);
                    m.cur += 1;
                }
            }
            Some(Ev::Backspace) => {
                if m.cur > 0 {
                    m.cur -= 1;
                    m.line.remove(m.cur);
                }
            }
            Some(Ev::Left) => m.cur = m.cur.saturating_sub(1),
            Some(Ev::Right) => {
                if m.cur < m.line.len() {
                    m.cur += 1
                }
            }
            Some(Ev::Up) => {
                #[cfg(feature = "history")]
                if let Some(e) = m.hist.older() {
                    m.set_line(&e);
                }
            }
            Some(Ev::Down) => {
                #[cfg(feature = "history")]
                {
                    let e = m.hist.newer().unwrap_or_default();
                    m.set_line(&e);
                }
            }
            Some(Ev::Tab) => {
                #[cfg(feature = "autocomplete")]
                {
                    // request: the line without the blanks between the cursor and the end
                    let text = m.text();
                    let off: usize = m.line[..m.cur].iter().map(|c| c.len_utf8()).sum();
                    let req = if m.cur < m.line.len() { let right = &text[off..]; &text[..text.len() - (right.len() - right.trim_end_matches(' ').len())] } else { &text[..] };
                    let w = req.trim_start_matches(' ');
                    if !w.is_empty() && !w.contains(' ') {
                        // continuations of the names of the command set, then of the built-in `help`, that start with w
                        let cands: Vec<String> =
                            C::NAMES.iter().chain(["help"].iter()).filter(|n| n.starts_with(w)).map(|n| n[w.len()..].to_string()).collect();
                        let room = m.cap - req.len();
                        if let (Some(x), partial) = merge_all(&cands, room) {
                            let mut nl = req.to_string() + &x;
                            if !partial && nl.len() < m.cap {
                                nl.push(' ');
                            }
                            m.line = nl.chars().collect();
                            m.cur = m.line.len();
                        }
                    }
                }
            }
            Some(Ev::Enter) => {
                let text = m.text();
                #[cfg(feature = "history")]
                m.hist.push(&text);
                enter_line = Some(text);
                m.line.clear();
                m.cur = 0;
            }
            None => {}
        }
        let after = (m.text(), m.cur);
        // ---- real step
        let (pre_real_cursor, pre_real_len) = match cli.editor.as_ref() {
            Some(e) => (e.cursor(), crate::lib_str(e.text()).chars().count()),
            None => (0, 0),
        };
        let res = cli.process_byte::<C, _>(b, &mut handler);
        let st = sink.0.borrow();
        let delta: Vec<SinkEv> = st.evs[n_evs_before..].to_vec();
        let failed_now = st.failed > failed_before;
        drop(st);
        let (rt, rc) = match cli.editor.as_ref() {
            Some(e) => (crate::lib_str(e.text()).to_string(), e.cursor()),
            None => {
                // the session lost its editor (only possible after a failed call): C14 says the CLI stays usable
                if want(only, "C14") {
                    return Some(Cex { input: trace, expected: "the CLI keeps its line editor after every call (usable session)".into(), actual: "Cli.editor is None".into() });
                }
                desync = true;
                (m.text(), m.cur)
            }
        };
        // C14: a failing sink is reported
        if failed_now && res.is_ok() && want(only, "C14") {
            return Some(Cex { input: trace, expected: "Err from the call during which the sink failed".into(), actual: "Ok(())".into() });
        }
        if res.is_err() && !failed_now && want(only, "C14") {
            return Some(Cex { input: trace, expected: "Ok(()) (the sink did not fail)".into(), actual: "Err".into() });
        }
        if failed_now {
            desync = true;
            // the edited line is as it was, as the key would have left it, or cleared
            let ok = (rt == before.0 && rc == before.1) || (rt == after.0 && rc == after.1) || (rt.is_empty() && rc == 0);
            if !ok && want(only, "C14") {
                return Some(Cex {
                    input: trace,
                    expected: format!("line {:?}@{} or {:?}@{} or empty", before.0, before.1, after.0, after.1),
                    actual: format!("{:?}@{}", rt, rc),
                });
            }
            // continue the model from what the editor holds
            m.line = rt.chars().collect();
            m.cur = rc.min(m.line.len());
            // a call that failed before anything was written did not get as far as recording the line
            #[cfg(feature = "history")]
            if enter_line.is_some() && delta.is_empty() {
                m.hist = hist_before;
            }
            if let Some(l) = &enter_line {
                // the handler may or may not have been reached; resynchronise the call log
                let toks = tokenize(l.as_bytes());
                let got = calls.borrow().len();
                if got > exp_calls.len() {
                    if !toks.is_empty() {
                        exp_calls.push((String::from_utf8(toks[0].clone()).unwrap(), classify(&toks[1..])));
                    }
                }
            }
            continue;
        }
        // ---- no failure in this call: compare with the model
        // which property a wrong line speaks about depends on the key: Enter (C01: the line is empty afterwards),
        // Up/Down (C10), Tab (C11), anything else (C05 ideal editor, C17 every scalar survives)
        let line_props: &[&str] = match &ev {
            Some(Ev::Enter) => &["C01", "C14"],
            Some(Ev::Up) | Some(Ev::Down) => &["C10", "C16"],
            Some(Ev::Tab) => &["C11", "C16"],
            _ => &["C05", "C17"],
        };
        // one-step checks do not blame this key when the editor was already inconsistent before it (cursor beyond the
        // line: an earlier defect of another kind)
        let stepwise = matches!(only, "C06" | "C13" | "C14" | "C15" | "C02" | "C03" | "C04" | "C10" | "C11" | "C16");
        let pre_corrupt = stepwise && pre_real_cursor > pre_real_len;
        if (rt.clone(), rc) != after && !pre_corrupt && (only.is_empty() || line_props.contains(&only)) {
            return Some(Cex { input: trace, expected: format!("line {:?} cursor {}", after.0, after.1), actual: format!("line {:?} cursor {}", rt, rc) });
        }
        if (rt.clone(), rc) != after && matches!(only, "C06" | "C13" | "C14" | "C15" | "C02" | "C03" | "C04" | "C10" | "C11" | "C16") {
            // checks of one step at a time (display, framing, flushing, failures, history recall, completion, features)
            // follow the real editor after every key, so that an earlier divergence is not counted again; checks about
            // what the line should be after *everything* typed so far (C01, C05, C07, C08, C12, C17) keep the ideal model
            m.line = rt.chars().collect();
            m.cur = rc.min(m.line.len());
        }
        if let Some(l) = &enter_line {
            let toks = tokenize(l.as_bytes());
            let mut to_handler = !toks.is_empty();
            #[cfg(feature = "help")]
            match wants_help(&toks) {
                Ok(Some(_)) => to_handler = false,
                Ok(None) => {}
                Err(()) => {
                    // the statement is silent: accept what happened
                    if calls.borrow().len() == exp_calls.len() {
                        to_handler = false
                    }
                }
            }
            if to_handler {
                exp_calls.push((String::from_utf8(toks[0].clone()).unwrap(), classify(&toks[1..])));
            }
            if *calls.borrow() != exp_calls && (want(only, "C01") || want(only, "C12") || want(only, "C07") || want(only, "C08") || want(only, "C16") || only == "C04" || only == "C14") {
                return Some(Cex {
                    input: trace,
                    expected: format!("handler calls {:?}", exp_calls),
                    actual: format!("handler calls {:?}", calls.borrow()),
                });
            }
            *calls.borrow_mut() = exp_calls.clone();
            // C13: what the handler wrote is framed: CRLF, converted output, one line break iff needed, prompt
            if to_handler && want(only, "C13") {
                let outs = handler.outputs[(handler.n - 1) % handler.outputs.len()].clone();
                let mut e = b"\r\n".to_vec();
                let mut body = Vec::new();
                for t in &outs {
                    body.extend(crate::writer_driver::lf_to_crlf(t));
                }
                e.extend(&body);
                if !body.is_empty() && *body.last().unwrap() != b'\n' {
                    e.extend(b"\r\n");
                }
                if toks[0] == b"cmd" {
                    e.extend(b"error: unknown command\r\n");
                }
                e.extend(prompt.as_bytes());
                let a = bytes_of(&delta);
                if a != e {
                    return Some(Cex { input: trace, expected: format!("sink receives {}", esc(&e)), actual: esc(&a) });
                }
            }
        } else if calls.borrow().len() != exp_calls.len() && (want(only, "C01") || only == "C04" || only == "C14") {
            // (C04: which keys are Enter depends on the bytes only; C14: after a failure later input is decoded normally)
            return Some(Cex { input: trace, expected: "no handler call for this key".into(), actual: format!("{:?}", calls.borrow().last()) });
        }
        // C15
        if res.is_ok() && !delta.is_empty() && delta.last() != Some(&SinkEv::F) && want(only, "C15") {
            return Some(Cex { input: trace, expected: "last sink operation of the call is a flush".into(), actual: format!("{:?}", delta) });
        }
        // C06 / C02: the terminal shows prompt + line with the cursor at the editor's cursor
        if !desync && (want(only, "C06") || want(only, "C02")) {
            let all = bytes_of(&sink.0.borrow().evs);
            match std::str::from_utf8(&all[fed..]) {
                Err(_) => {
                    if want(only, "C02") {
                        return Some(Cex { input: trace, expected: "well-formed UTF-8 echo".into(), actual: esc(&all[fed..]) });
                    }
                    desync = true;
                }
                Ok(s) => {
                    if let Err(e) = term.feed(s) {
                        if want(only, "C06") {
                            return Some(Cex { input: trace, expected: "output a VT100 terminal understands".into(), actual: e });
                        }
                        desync = true;
                    }
                    fed = all.len();
                    let e = (prompt.to_string() + &rt).trim_end_matches(' ').to_string();
                    let ecol = prompt.chars().count() + rc;
                    if !desync && (term.shown() != e || term.col != ecol) && want(only, "C06") {
                        return Some(Cex {
                            input: trace,
                            expected: format!("terminal line {:?} cursor column {}", e, ecol),
                            actual: format!("terminal line {:?} cursor column {}", term.shown(), term.col),
                        });
                    }
                }
            }
        }
    }
    None
}
