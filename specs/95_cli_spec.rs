// Command dispatch and help routing (C01, C12).
verus! {
pub open spec fn help_word() -> Seq<u8> { seq![0x68u8, 0x65u8, 0x6Cu8, 0x70u8] }

/// the line asks for help (and therefore must not reach the handler): `help` alone, `help <command> ...`,
/// or any other command with -h / --help among its options (before any `--`)
pub open spec fn wants_help(name: Seq<u8>, args: Seq<Seq<u8>>) -> bool {
    let items = classify(args, false);
    if name == help_word() {
        items.len() == 0 || items[0] is Value
    } else {
        exists|i: int| 0 <= i < items.len() && (#[trigger] items[i] == ArgItem::Long(help_word()) || items[i] == ArgItem::Short('h'))
    }
}

/// what Enter dispatches for a line: None when the line has no token or is a help request
pub open spec fn dispatch_of(line: Seq<u8>, help_enabled: bool) -> Option<(Seq<u8>, Seq<Seq<u8>>)> {
    let toks = tokenize(line);
    if toks.len() == 0 { None }
    else if help_enabled && wants_help(toks[0], toks.drop_first()) { None }
    else { Some((toks[0], toks.drop_first())) }
}

pub proof fn lemma_help_word()
    ensures "help".spec_bytes() == help_word()
{
    reveal_strlit("help");
    let s = "help"@;
    assert(s =~= seq!['h', 'e', 'l', 'p']);
    assert(is_ascii_chars(s));
    is_ascii_chars_encode_utf8(s);
    assert(encode_utf8(s) =~= help_word());
}
} // verus!
verus! {
/// bytes of the message C12 prescribes for unknown / hidden commands
pub open spec fn unknown_command_msg() -> Seq<u8> {
    seq![0x65u8, 0x72, 0x72, 0x6F, 0x72, 0x3A, 0x20, 0x75, 0x6E, 0x6B, 0x6E, 0x6F, 0x77, 0x6E, 0x20, 0x63, 0x6F, 0x6D, 0x6D, 0x61, 0x6E, 0x64]
}

pub proof fn lemma_unknown_command_msg()
    ensures "error: ".spec_bytes() + "unknown command".spec_bytes() == unknown_command_msg(),
        no_lf("error: ".spec_bytes()), no_lf("unknown command".spec_bytes()),
{
    reveal_strlit("error: ");
    reveal_strlit("unknown command");
    let a = "error: "@;
    let b = "unknown command"@;
    assert(a =~= seq!['e', 'r', 'r', 'o', 'r', ':', ' ']);
    assert(b =~= seq!['u', 'n', 'k', 'n', 'o', 'w', 'n', ' ', 'c', 'o', 'm', 'm', 'a', 'n', 'd']);
    assert(is_ascii_chars(a));
    assert(is_ascii_chars(b));
    is_ascii_chars_encode_utf8(a);
    is_ascii_chars_encode_utf8(b);
    assert(encode_utf8(a) + encode_utf8(b) =~= unknown_command_msg());
}
} // verus!
