// Command dispatch and help routing (C01, C12).
verus! {
pub open spec fn help_word() -> Seq<u8> { seq![0x68u8, 0x65u8, 0x6Cu8, 0x70u8] }

/// the line asks for help (and therefore must not reach the handler): `help` alone, `help <command> ...`,
/// or any other command with -h / --help among its options (before any `--`)
pub open spec fn wants_help(name: Seq<u8>, args: Seq<Seq<u8>>) -> bool {
    let items = classify(args, false);
    if name == help_word() {
        items.len() == 0 || items[0] is Value
    } else {
        exists|i: int| 0 <= i < items.len() && (#[trigger] items[i] == ArgItem::Long(help_word()) || items[i] == ArgItem::Short('h'))
    }
}

/// what Enter dispatches for a line: None when the line has no token or is a help request
pub open spec fn dispatch_of(line: Seq<u8>, help_enabled: bool) -> Option<(Seq<u8>, Seq<Seq<u8>>)> {
    let toks = tokenize(line);
    if toks.len() == 0 { None }
    else if help_enabled && wants_help(toks[0], toks.drop_first()) { None }
    else { Some((toks[0], toks.drop_first())) }
}

pub proof fn lemma_help_word()
    ensures "help".spec_bytes() == help_word()
{
    reveal_strlit("help");
    let s = "help"@;
    assert(s =~= seq!['h', 'e', 'l', 'p']);
    assert(is_ascii_chars(s));
    is_ascii_chars_encode_utf8(s);
    assert(encode_utf8(s) =~= help_word());
}
} // verus!
