// History: abstract view (list of entries, oldest first) and the operations of C10.
verus! {
/// NUL-terminated concatenation of the entries, oldest first
pub open spec fn flat(es: Seq<Seq<u8>>) -> Seq<u8>
    decreases es.len()
{
    if es.len() == 0 { Seq::empty() } else { flat(es.drop_last()) + es.last() + seq![0u8] }
}

/// byte offset of entry i in flat(es); start(es, len) is the total size
pub open spec fn start(es: Seq<Seq<u8>>, i: int) -> int
    decreases i
{
    if i <= 0 { 0 } else { start(es, i - 1) + es[i - 1].len() + 1 }
}

pub open spec fn hsize(es: Seq<Seq<u8>>) -> int { start(es, es.len() as int) }

pub open spec fn entry_ok(e: Seq<u8>) -> bool {
    e.len() > 0 && valid_utf8(e) && nul_free(e)
}

pub open spec fn entries_ok(es: Seq<Seq<u8>>) -> bool { forall|i: int| 0 <= i < es.len() ==> entry_ok(#[trigger] es[i]) }

#[verifier::opaque]
pub open spec fn distinct(es: Seq<Seq<u8>>) -> bool {
    forall|i: int, j: int| 0 <= i < j < es.len() ==> es[i] != es[j]
}

/// entries stored in a used buffer prefix (inverse of flat)
pub open spec fn hist_entries(s: Seq<u8>) -> Seq<Seq<u8>> {
    if s.len() == 0 { Seq::empty() } else { split0(s).drop_last() }
}

pub proof fn lemma_start_lower(es: Seq<Seq<u8>>, i: int)
    requires 0 <= i <= es.len(), entries_ok(es)
    ensures start(es, i) >= 2 * i
    decreases i
{
    if i > 0 { lemma_start_lower(es, i - 1); assert(entry_ok(es[i - 1])); }
}

pub proof fn lemma_start_nonneg(es: Seq<Seq<u8>>, i: int)
    requires 0 <= i <= es.len()
    ensures start(es, i) >= 0
    decreases i
{
    if i > 0 { lemma_start_nonneg(es, i - 1); }
}

pub proof fn lemma_start_mono(es: Seq<Seq<u8>>, i: int, j: int)
    requires 0 <= i <= j <= es.len()
    ensures start(es, i) <= start(es, j), i < j ==> start(es, i) + es[i].len() + 1 <= start(es, j)
    decreases j - i
{
    if i < j { lemma_start_mono(es, i, j - 1); if i < j - 1 { } }
}

pub proof fn lemma_start_eq(a: Seq<Seq<u8>>, b: Seq<Seq<u8>>, i: int)
    requires 0 <= i <= a.len(), i <= b.len(), forall|k: int| 0 <= k < i ==> a[k] == b[k]
    ensures start(a, i) == start(b, i)
    decreases i
{
    if i > 0 { lemma_start_eq(a, b, i - 1); }
}

pub proof fn lemma_flat_len(es: Seq<Seq<u8>>)
    ensures flat(es).len() == hsize(es)
    decreases es.len()
{
    if es.len() > 0 {
        lemma_flat_len(es.drop_last());
        lemma_start_eq(es.drop_last(), es, es.len() - 1);
    }
}

/// entry i occupies [start(i), start(i)+len) in flat(es) and is followed by NUL
pub proof fn lemma_flat_entry(es: Seq<Seq<u8>>, i: int)
    requires 0 <= i < es.len()
    ensures
        0 <= start(es, i),
        start(es, i) + es[i].len() + 1 <= flat(es).len(),
        flat(es).subrange(start(es, i), start(es, i) + es[i].len()) == es[i],
        flat(es)[start(es, i) + es[i].len()] == 0,
    decreases es.len()
{
    let n = es.len() as int;
    lemma_start_nonneg(es, i);
    lemma_flat_len(es);
    lemma_flat_len(es.drop_last());
    lemma_start_eq(es.drop_last(), es, n - 1);
    if i == n - 1 {
        assert(flat(es).subrange(start(es, i), start(es, i) + es[i].len()) =~= es[i]);
    } else {
        lemma_flat_entry(es.drop_last(), i);
        lemma_start_eq(es.drop_last(), es, i);
        lemma_start_mono(es, i, n - 1);
        assert(flat(es).subrange(start(es, i), start(es, i) + es[i].len()) =~= flat(es.drop_last()).subrange(start(es, i), start(es, i) + es[i].len()));
    }
}

/// flat distributes over concatenation
pub proof fn lemma_flat_concat(a: Seq<Seq<u8>>, b: Seq<Seq<u8>>)
    ensures flat(a + b) == flat(a) + flat(b)
    decreases b.len()
{
    if b.len() == 0 {
        assert(a + b =~= a);
        assert(flat(a) + flat(b) =~= flat(a));
    } else {
        lemma_flat_concat(a, b.drop_last());
        assert((a + b).drop_last() =~= a + b.drop_last());
        assert((a + b).last() == b.last());
        assert(flat(a + b) =~= flat(a) + flat(b));
    }
}

pub proof fn lemma_flat_one(e: Seq<u8>)
    ensures flat(seq![e]) == e + seq![0u8]
{
    reveal_with_fuel(flat, 2);
    assert(seq![e].drop_last() =~= Seq::<Seq<u8>>::empty());
    assert(seq![e].last() == e);
    assert(flat(seq![e].drop_last()) =~= Seq::<u8>::empty());
    assert(flat(seq![e]) =~= e + seq![0u8]);
}

/// the entries can be read back from the flattened bytes
pub proof fn lemma_unflat_flat(es: Seq<Seq<u8>>)
    requires entries_ok(es)
    ensures hist_entries(flat(es)) == es, es.len() > 0 ==> split0(flat(es)) == es.push(Seq::<u8>::empty())
    decreases es.len()
{
    if es.len() == 0 {
    } else {
        let e0 = es[0];
        let rest = es.drop_first();
        assert(es =~= seq![e0] + rest);
        lemma_flat_concat(seq![e0], rest);
        lemma_flat_one(e0);
        let s = flat(es);
        assert(s == e0 + seq![0u8] + flat(rest));
        assert(entry_ok(e0));
        assert(entries_ok(rest)) by { assert forall|i: int| 0 <= i < rest.len() implies entry_ok(#[trigger] rest[i]) by { assert(rest[i] == es[i + 1]); } }
        lemma_unflat_flat(rest);
        assert forall|i: int| 0 <= i < e0.len() implies s[i] != 0 by { assert(s[i] == e0[i]); }
        assert(s[e0.len() as int] == 0);
        lemma_first0_is(s, e0.len() as int);
        assert(s.subrange(0, e0.len() as int) =~= e0);
        assert(s.subrange(e0.len() as int + 1, s.len() as int) =~= flat(rest));
        if rest.len() == 0 {
            assert(flat(rest) =~= Seq::<u8>::empty());
            lemma_first0_is(flat(rest), 0);
            assert(split0(flat(rest)) =~= seq![Seq::<u8>::empty()]);
        }
        assert(split0(s) =~= seq![e0] + split0(flat(rest)));
        assert(split0(s) =~= es.push(Seq::<u8>::empty()));
        assert(es.push(Seq::<u8>::empty()).drop_last() =~= es);
    }
}

// ---------------- operations of the statement ----------------

/// the list without the entries equal to t (at most one when the list is duplicate-free)
#[verifier::opaque]
pub open spec fn remove_eq(es: Seq<Seq<u8>>, t: Seq<u8>) -> Seq<Seq<u8>>
    decreases es.len()
{
    if es.len() == 0 { Seq::empty() } else {
        let r = remove_eq(es.drop_last(), t);
        if es.last() == t { r } else { r.push(es.last()) }
    }
}

/// how many of the oldest entries must go so that the rest fits into `room` bytes: as few as possible
#[verifier::opaque]
pub open spec fn evict_count(es: Seq<Seq<u8>>, room: int) -> int
    decreases es.len()
{
    if es.len() == 0 || hsize(es) <= room { 0 } else { 1 + evict_count(es.drop_first(), room) }
}

/// the history after submitting line t into a buffer of `cap` bytes (t is recordable)
pub open spec fn hist_push(es: Seq<Seq<u8>>, t: Seq<u8>, cap: int) -> Seq<Seq<u8>> {
    let kept = remove_eq(es, t);
    kept.skip(evict_count(kept, cap - t.len() - 1)).push(t)
}

pub open spec fn recordable(t: Seq<u8>, cap: int) -> bool {
    t.len() > 0 && nul_free(t) && t.len() + 1 <= cap
}

/// Up: from "not navigating" to the newest, otherwise one older; None when there is nothing older
pub open spec fn nav_older(n: int, nav: Option<int>) -> Option<int> {
    match nav { Some(i) => if i > 0 { Some(i - 1) } else { None }, None => if n > 0 { Some(n - 1) } else { None } }
}

/// Down: one newer; past the newest leaves navigation
pub open spec fn nav_newer(n: int, nav: Option<int>) -> Option<int> {
    match nav { Some(i) => if i + 1 < n { Some(i + 1) } else { None }, None => None }
}
} // verus!
verus! {
pub proof fn lemma_start_inj(es: Seq<Seq<u8>>, i: int, j: int)
    requires 0 <= i <= es.len(), 0 <= j <= es.len(), start(es, i) == start(es, j)
    ensures i == j
{
    if i < j { lemma_start_mono(es, i, j); }
    if j < i { lemma_start_mono(es, j, i); }
}

/// index of the entry that starts at byte offset c
pub open spec fn nav_idx(es: Seq<Seq<u8>>, c: int) -> int {
    choose|i: int| 0 <= i < es.len() && start(es, i) == c
}

pub proof fn lemma_nav_idx(es: Seq<Seq<u8>>, t: int)
    requires 0 <= t < es.len()
    ensures nav_idx(es, start(es, t)) == t
{
    let i = nav_idx(es, start(es, t));
    lemma_start_inj(es, i, t);
}

/// bytes of flat(es) inside entry t are not NUL
pub proof fn lemma_flat_entry_nul_free(es: Seq<Seq<u8>>, t: int)
    requires 0 <= t < es.len(), entries_ok(es)
    ensures forall|j: int| start(es, t) <= j < start(es, t) + es[t].len() ==> #[trigger] flat(es)[j] != 0
{
    lemma_flat_entry(es, t);
    let fb = flat(es);
    let sub = fb.subrange(start(es, t), start(es, t) + es[t].len());
    assert(entry_ok(es[t]));
    assert forall|j: int| start(es, t) <= j < start(es, t) + es[t].len() implies #[trigger] fb[j] != 0 by {
        let k = j - start(es, t);
        assert(sub[k] == fb[start(es, t) + k]);
    }
}
} // verus!
verus! {
pub open spec fn contains_entry(es: Seq<Seq<u8>>, t: Seq<u8>) -> bool { exists|i: int| 0 <= i < es.len() && es[i] == t }

pub proof fn lemma_remove_eq_absent(es: Seq<Seq<u8>>, t: Seq<u8>)
    requires forall|i: int| 0 <= i < es.len() ==> es[i] != t
    ensures remove_eq(es, t) == es
    decreases es.len()
{
    reveal(remove_eq);
    if es.len() > 0 {
        lemma_remove_eq_absent(es.drop_last(), t);
        assert(es.drop_last().push(es.last()) =~= es);
    }
}

/// in a duplicate-free list, removing t removes exactly its single occurrence
pub proof fn lemma_remove_eq_at(es: Seq<Seq<u8>>, t: Seq<u8>, k: int)
    requires distinct(es), 0 <= k < es.len(), es[k] == t
    ensures remove_eq(es, t) == es.subrange(0, k) + es.subrange(k + 1, es.len() as int)
    decreases es.len()
{
    reveal(distinct);
    reveal(remove_eq);
    let n = es.len() as int;
    if k == n - 1 {
        assert forall|i: int| 0 <= i < n - 1 implies es.drop_last()[i] != t by { }
        lemma_remove_eq_absent(es.drop_last(), t);
        assert(es.subrange(0, k) + es.subrange(k + 1, n) =~= es.drop_last());
    } else {
        assert(distinct(es.drop_last()));
        lemma_remove_eq_at(es.drop_last(), t, k);
        assert(es.last() != t);
        assert((es.drop_last().subrange(0, k) + es.drop_last().subrange(k + 1, n - 1)).push(es.last())
            =~= es.subrange(0, k) + es.subrange(k + 1, n));
    }
}

pub proof fn lemma_start_concat(a: Seq<Seq<u8>>, b: Seq<Seq<u8>>, i: int)
    requires 0 <= i <= b.len()
    ensures start(a + b, a.len() + i) == hsize(a) + start(b, i), i <= a.len() ==> true
    decreases i
{
    if i == 0 {
        lemma_start_eq(a + b, a, a.len() as int);
    } else {
        lemma_start_concat(a, b, i - 1);
        assert((a + b)[a.len() + i - 1] == b[i - 1]);
    }
}

/// flat of a suffix is the suffix of flat
pub proof fn lemma_flat_skip(es: Seq<Seq<u8>>, k: int)
    requires 0 <= k <= es.len()
    ensures flat(es.skip(k)) == flat(es).subrange(start(es, k), flat(es).len() as int),
        hsize(es.skip(k)) == hsize(es) - start(es, k), 0 <= start(es, k) <= hsize(es),
{
    let a = es.subrange(0, k);
    let b = es.skip(k);
    assert(a + b =~= es);
    lemma_flat_concat(a, b);
    lemma_flat_len(a); lemma_flat_len(b); lemma_flat_len(es);
    lemma_start_eq(a, es, k);
    lemma_start_nonneg(es, k);
    lemma_start_mono(es, k, es.len() as int);
    assert(flat(es).subrange(start(es, k), flat(es).len() as int) =~= flat(b));
}

/// removing entry k removes its bytes (and terminator) from flat
pub proof fn lemma_flat_remove(es: Seq<Seq<u8>>, k: int)
    requires 0 <= k < es.len()
    ensures flat(es.subrange(0, k) + es.subrange(k + 1, es.len() as int))
        == flat(es).subrange(0, start(es, k)) + flat(es).subrange(start(es, k + 1), flat(es).len() as int),
        0 <= start(es, k) < start(es, k + 1) <= flat(es).len(),
{
    let n = es.len() as int;
    let a = es.subrange(0, k);
    let m = seq![es[k]];
    let c = es.subrange(k + 1, n);
    assert(a + m + c =~= es);
    lemma_flat_concat(a, m); lemma_flat_concat(a + m, c); lemma_flat_concat(a, c);
    lemma_flat_len(a); lemma_flat_len(a + m); lemma_flat_len(es); lemma_flat_len(c);
    lemma_start_eq(a, es, k);
    lemma_start_eq(a + m, es, k + 1);
    lemma_start_nonneg(es, k);
    lemma_start_mono(es, k + 1, n);
    assert(flat(es).subrange(0, start(es, k)) =~= flat(a));
    assert(flat(es).subrange(start(es, k + 1), flat(es).len() as int) =~= flat(c));
}

pub proof fn lemma_start_drop_first(es: Seq<Seq<u8>>, i: int)
    requires es.len() > 0, 0 <= i < es.len()
    ensures start(es.drop_first(), i) == start(es, i + 1) - es[0].len() - 1
    decreases i
{
    reveal_with_fuel(start, 2);
    if i > 0 {
        lemma_start_drop_first(es, i - 1);
        assert(es.drop_first()[i - 1] == es[i]);
    }
}

/// characterisation of the minimal eviction: k is the least index whose start reaches the bytes to be freed
pub proof fn lemma_evict_count(es: Seq<Seq<u8>>, room: int, k: int)
    requires entries_ok(es), 0 <= k <= es.len(), start(es, k) >= hsize(es) - room,
        k > 0 ==> start(es, k - 1) < hsize(es) - room,
    ensures evict_count(es, room) == k
    decreases es.len()
{
    reveal(evict_count);
    if es.len() == 0 {
    } else if k == 0 {
        assert(hsize(es) <= room);
    } else {
        lemma_start_nonneg(es, k - 1);
        assert(hsize(es) > room);
        let r = es.drop_first();
        assert(entries_ok(r)) by { assert forall|i: int| 0 <= i < r.len() implies entry_ok(#[trigger] r[i]) by { assert(r[i] == es[i + 1]); } }
        lemma_start_drop_first(es, es.len() - 1);
        lemma_start_drop_first(es, k - 1);
        if k - 1 > 0 { lemma_start_drop_first(es, k - 2); }
        lemma_evict_count(r, room, k - 1);
    }
}

pub proof fn lemma_remove_eq_props_full(es: Seq<Seq<u8>>, t: Seq<u8>)
    requires entries_ok(es), distinct(es)
    ensures entries_ok(remove_eq(es, t)), distinct(remove_eq(es, t)),
        forall|i: int| 0 <= i < remove_eq(es, t).len() ==> remove_eq(es, t)[i] != t,
        forall|i: int| 0 <= i < remove_eq(es, t).len() ==> contains_entry(es, #[trigger] remove_eq(es, t)[i]),
        hsize(remove_eq(es, t)) <= hsize(es),
    decreases es.len()
{
    reveal(distinct);
    reveal(remove_eq);
    if es.len() > 0 {
        let d = es.drop_last();
        assert(entries_ok(d));
        assert(distinct(d));
        lemma_remove_eq_props_full(d, t);
        let r = remove_eq(d, t);
        let res = remove_eq(es, t);
        lemma_start_eq(d, es, es.len() - 1);
        if es.last() != t {
            assert(res == r.push(es.last()));
            lemma_start_eq(r, res, r.len() as int);
            assert forall|i: int| 0 <= i < res.len() implies contains_entry(es, #[trigger] res[i]) by {
                if i < r.len() {
                    assert(contains_entry(d, r[i]));
                    let w = choose|w: int| 0 <= w < d.len() && d[w] == r[i];
                    assert(es[w] == res[i]);
                } else {
                    assert(es[es.len() - 1] == res[i]);
                }
            }
            assert forall|i: int, j: int| 0 <= i < j < res.len() implies res[i] != res[j] by {
                if j == res.len() - 1 {
                    assert(contains_entry(d, r[i]));
                    let w = choose|w: int| 0 <= w < d.len() && d[w] == r[i];
                    assert(es[w] != es[es.len() - 1]);
                }
            }
            assert(entries_ok(res)) by {
                assert forall|i: int| 0 <= i < res.len() implies entry_ok(#[trigger] res[i]) by {
                    if i < r.len() { assert(entry_ok(r[i])); } else { assert(entry_ok(es[es.len() - 1])); }
                }
            }
        } else {
            assert forall|i: int| 0 <= i < res.len() implies contains_entry(es, #[trigger] res[i]) by {
                assert(contains_entry(d, r[i]));
                let w = choose|w: int| 0 <= w < d.len() && d[w] == r[i];
                assert(es[w] == res[i]);
            }
        }
    }
}
} // verus!
verus! {
/// every used byte belongs to exactly one entry (or is its terminator)
pub proof fn lemma_entry_at(es: Seq<Seq<u8>>, b: int) -> (m: int)
    requires 0 <= b < hsize(es)
    ensures 0 <= m < es.len(), start(es, m) <= b < start(es, m + 1)
    decreases es.len()
{
    let n = es.len() as int;
    if n == 0 {
        0
    } else if b >= start(es, n - 1) {
        n - 1
    } else {
        lemma_start_eq(es.drop_last(), es, n - 1);
        let m = lemma_entry_at(es.drop_last(), b);
        lemma_start_eq(es.drop_last(), es, m);
        lemma_start_eq(es.drop_last(), es, m + 1);
        m
    }
}

pub proof fn lemma_skip_props(es: Seq<Seq<u8>>, k: int, t: Seq<u8>)
    requires 0 <= k <= es.len(), entries_ok(es), distinct(es), forall|i: int| 0 <= i < es.len() ==> es[i] != t
    ensures entries_ok(es.skip(k)), distinct(es.skip(k)), forall|i: int| 0 <= i < es.skip(k).len() ==> es.skip(k)[i] != t
{
    reveal(distinct);
    let s = es.skip(k);
    assert forall|i: int| 0 <= i < s.len() implies entry_ok(#[trigger] s[i]) by { assert(s[i] == es[i + k]); }
    assert forall|i: int, j: int| 0 <= i < j < s.len() implies s[i] != s[j] by { assert(s[i] == es[i + k]); assert(s[j] == es[j + k]); }
    assert forall|i: int| 0 <= i < s.len() implies s[i] != t by { assert(s[i] == es[i + k]); }
}

pub proof fn lemma_push_props(es: Seq<Seq<u8>>, t: Seq<u8>)
    requires entries_ok(es), distinct(es), forall|i: int| 0 <= i < es.len() ==> es[i] != t, entry_ok(t)
    ensures entries_ok(es.push(t)), distinct(es.push(t)), flat(es.push(t)) == flat(es) + t + seq![0u8],
        hsize(es.push(t)) == hsize(es) + t.len() + 1,
{
    reveal(distinct);
    let p = es.push(t);
    assert(p.drop_last() =~= es);
    assert forall|i: int| 0 <= i < p.len() implies entry_ok(#[trigger] p[i]) by { if i < es.len() { assert(p[i] == es[i]); } }
    lemma_start_eq(es, p, es.len() as int);
}
} // verus!
verus! {
/// Eviction as computed by History::push: `required` bytes must be freed; the first NUL at or after byte
/// required-1 ends the last entry that has to go.  The entries dropped are exactly the minimal oldest prefix.
pub proof fn lemma_evict_plan(es1: Seq<Seq<u8>>, room: int, b: Seq<u8>, win: Seq<u8>, used: int, required: int, pos: int)
    requires
        entries_ok(es1), 0 <= used <= b.len(), b.subrange(0, used) == flat(es1), used == hsize(es1),
        1 <= required < used, required == hsize(es1) - room,
        win == b.subrange(required - 1, used),
        0 <= pos < used - (required - 1), win[pos] == 0,
        forall|q: int| 0 <= q < pos ==> win[q] != 0,
    ensures ({
        let removing = required + pos;
        let k = evict_count(es1, room);
        &&& 0 < k <= es1.len()
        &&& removing == start(es1, k)
        &&& removing <= used
        &&& flat(es1.skip(k)) == b.subrange(removing, used)
        &&& hsize(es1.skip(k)) == used - removing
        &&& (removing == used <==> k == es1.len())
    }),
{
    let m = lemma_entry_at(es1, required - 1);
    lemma_flat_entry(es1, m);
    lemma_flat_entry_nul_free(es1, m);
    lemma_start_mono(es1, m + 1, es1.len() as int);
    lemma_flat_len(es1);
    let fb = flat(es1);
    assert forall|q: int| 0 <= q < used implies b[q] == fb[q] by {
        assert(b.subrange(0, used)[q] == b[q]);
    }
    let term = start(es1, m) + es1[m].len();
    // the terminator of entry m is the first NUL at or after byte required-1
    assert(fb[term] == 0);
    if required - 1 + pos < term {
        assert(fb[required - 1 + pos] != 0);
    }
    assert(win[pos] == b[required - 1 + pos]);
    if required - 1 + pos > term {
        assert(win[term - (required - 1)] != 0);
        assert(win[term - (required - 1)] == b[term]);
    }
    assert(required - 1 + pos == term);
    assert(required + pos == start(es1, m + 1));
    lemma_evict_count(es1, room, m + 1);
    lemma_flat_skip(es1, m + 1);
    assert(fb.subrange(start(es1, m + 1), fb.len() as int) =~= b.subrange(required + pos, used));
    if m + 1 < es1.len() {
        lemma_start_mono(es1, m + 1, es1.len() as int);
        assert(entry_ok(es1[m + 1]));
    }
}

/// when even an empty history leaves no room to spare, every entry goes
pub proof fn lemma_evict_all(es1: Seq<Seq<u8>>, room: int)
    requires entries_ok(es1), room >= 0, hsize(es1) - room >= hsize(es1)
    ensures evict_count(es1, room) == es1.len(), es1.skip(es1.len() as int) == Seq::<Seq<u8>>::empty()
{
    let n = es1.len() as int;
    if n > 0 { lemma_start_mono(es1, n - 1, n); assert(entry_ok(es1[n - 1])); }
    lemma_evict_count(es1, room, n);
    assert(es1.skip(n) =~= Seq::<Seq<u8>>::empty());
}
} // verus!
verus! {
pub proof fn lemma_flat_last(es: Seq<Seq<u8>>)
    requires es.len() > 0
    ensures flat(es).len() > 0, flat(es).last() == 0
{
}
} // verus!
verus! {
pub proof fn lemma_remove_eq_props(es: Seq<Seq<u8>>, t: Seq<u8>)
    requires entries_ok(es), distinct(es)
    ensures entries_ok(remove_eq(es, t)), distinct(remove_eq(es, t)),
        forall|i: int| 0 <= i < remove_eq(es, t).len() ==> #[trigger] remove_eq(es, t)[i] != t,
        hsize(remove_eq(es, t)) <= hsize(es),
{
    lemma_remove_eq_props_full(es, t);
}
} // verus!
verus! {
/// appending `t` and its terminator after the used bytes stores the list with t as the newest entry
pub proof fn lemma_append_entry(es2: Seq<Seq<u8>>, t: Seq<u8>, b2: Seq<u8>, used2: int, nb: Seq<u8>)
    requires
        0 <= used2, used2 + t.len() + 1 <= nb.len(), b2.len() == nb.len(),
        b2.subrange(0, used2) == flat(es2),
        nb.subrange(0, used2) == b2.subrange(0, used2),
        nb.subrange(used2, used2 + t.len()) == t,
        nb[used2 + t.len()] == 0,
    ensures nb.subrange(0, used2 + t.len() + 1) == flat(es2.push(t))
{
    assert(es2.push(t).drop_last() =~= es2);
    let target = flat(es2) + t + seq![0u8];
    let got = nb.subrange(0, used2 + t.len() + 1);
    assert(got.len() == target.len());
    assert forall|q: int| 0 <= q < got.len() implies got[q] == target[q] by {
        if q < used2 {
            assert(nb.subrange(0, used2)[q] == nb[q]);
            assert(b2.subrange(0, used2)[q] == flat(es2)[q]);
        } else if q < used2 + t.len() {
            assert(nb.subrange(used2, used2 + t.len())[q - used2] == nb[q]);
        }
    }
    assert(got =~= target);
}
} // verus!
