// UTF-8 accumulator: abstract step function and theorems over vstd::utf8 (Unicode Table 3-7).
verus! {
pub open spec fn lead_width(b: u8) -> int {
    if 0xC2 <= b <= 0xDF { 2 } else if 0xE0 <= b <= 0xEF { 3 } else if 0xF0 <= b <= 0xF4 { 4 } else { 0 }
}

pub open spec fn second_ok(first: u8, b: u8) -> bool {
    is_continuation_byte(b) && (first == 0xE0 ==> b >= 0xA0) && (first == 0xED ==> b < 0xA0)
      && (first == 0xF0 ==> b >= 0x90) && (first == 0xF4 ==> b < 0x90)
}

/// octets of a scalar in progress: empty, or a proper prefix of a well-formed multi-byte scalar
pub open spec fn pending_ok(p: Seq<u8>) -> bool {
    p.len() == 0 || (lead_width(p[0]) > p.len() && (p.len() >= 2 ==> second_ok(p[0], p[1]))
       && (p.len() >= 3 ==> is_continuation_byte(p[2])))
}

/// One step of the ideal accumulator: (pending', emitted scalar bytes).
/// ASCII restarts and is emitted; a lead byte restarts; anything that cannot continue the pending
/// scalar is dropped together with the pending octets.
pub open spec fn acc_step(p: Seq<u8>, b: u8) -> (Seq<u8>, Option<Seq<u8>>) {
    if b < 0x80 { (Seq::empty(), Some(seq![b])) }
    else if lead_width(b) > 0 { (seq![b], None) }
    else if !is_continuation_byte(b) { (Seq::empty(), None) }
    else if p.len() == 0 { (Seq::empty(), None) }
    else if p.len() == 1 && !second_ok(p[0], b) { (Seq::empty(), None) }
    else if p.len() + 1 == lead_width(p[0]) { (Seq::empty(), Some(p.push(b))) }
    else { (p.push(b), None) }
}

/// input that continues well-formed text: a first octet when nothing is pending, or a continuation octet in
/// the range the pending lead allows
pub open spec fn good_step(p: Seq<u8>, b: u8) -> bool {
    pending_ok(p) && (
        (p.len() == 0 && (b < 0x80 || lead_width(b) > 0))
        || (p.len() > 0 && is_continuation_byte(b) && (p.len() == 1 ==> second_ok(p[0], b))))
}

/// fold of acc_step: (pending after s, number of scalars emitted)
pub open spec fn scan(p0: Seq<u8>, s: Seq<u8>) -> (Seq<u8>, nat)
    decreases s.len()
{
    if s.len() == 0 { (p0, 0) } else {
        let (p, c) = scan(p0, s.drop_last());
        let (p2, o) = acc_step(p, s.last());
        (p2, if o is Some { c + 1 } else { c })
    }
}

pub open spec fn complete_ok(s: Seq<u8>) -> bool {
    2 <= s.len() <= 4 && lead_width(s[0]) == s.len() && second_ok(s[0], s[1])
      && (s.len() >= 3 ==> is_continuation_byte(s[2])) && (s.len() >= 4 ==> is_continuation_byte(s[3]))
}

pub proof fn lemma_ascii_valid(b: u8)
    requires b < 0x80
    ensures valid_utf8(seq![b]), valid_first_scalar(seq![b]), length_of_first_scalar(seq![b]) == 1,
        decode_utf8(seq![b]).len() == 1,
{
    let s = seq![b];
    assert(valid_first_scalar(s));
    assert(pop_first_scalar(s) =~= Seq::<u8>::empty());
    assert(valid_utf8(pop_first_scalar(s)));
    assert(decode_utf8(pop_first_scalar(s)).len() == 0);
}

proof fn lemma_bits2(b1: u8, b2: u8)
    requires 0xC2 <= b1 <= 0xDF, 0x80 <= b2 <= 0xBF
    ensures 128u32 <= (((b1 & 0x1F) as u32) << 6) | ((b2 & 0x3F) as u32) <= 2047u32
{
    assert(128u32 <= (((b1 & 0x1F) as u32) << 6) | ((b2 & 0x3F) as u32) && (((b1 & 0x1F) as u32) << 6) | ((b2 & 0x3F) as u32) <= 2047u32) by (bit_vector)
        requires 0xC2 <= b1 <= 0xDF, 0x80 <= b2 <= 0xBF;
}
proof fn lemma_bits3(b1: u8, b2: u8, b3: u8)
    requires 0xE0 <= b1 <= 0xEF, 0x80 <= b2 <= 0xBF, 0x80 <= b3 <= 0xBF, b1 == 0xE0 ==> b2 >= 0xA0, b1 == 0xED ==> b2 < 0xA0
    ensures ({ let c = (((b1 & 0x0F) as u32) << 12) | (((b2 & 0x3F) as u32) << 6) | ((b3 & 0x3F) as u32);
               2048u32 <= c && !(55296u32 <= c <= 57343u32) })
{
    assert(({ let c = (((b1 & 0x0F) as u32) << 12) | (((b2 & 0x3F) as u32) << 6) | ((b3 & 0x3F) as u32);
               2048u32 <= c && !(55296u32 <= c && c <= 57343u32) })) by (bit_vector)
        requires 0xE0 <= b1 <= 0xEF, 0x80 <= b2 <= 0xBF, 0x80 <= b3 <= 0xBF, b1 == 0xE0 ==> b2 >= 0xA0, b1 == 0xED ==> b2 < 0xA0;
}
proof fn lemma_bits4(b1: u8, b2: u8, b3: u8, b4: u8)
    requires 0xF0 <= b1 <= 0xF4, 0x80 <= b2 <= 0xBF, 0x80 <= b3 <= 0xBF, 0x80 <= b4 <= 0xBF, b1 == 0xF0 ==> b2 >= 0x90, b1 == 0xF4 ==> b2 < 0x90
    ensures ({ let c = (((b1 & 0x07) as u32) << 18) | (((b2 & 0x3F) as u32) << 12) | (((b3 & 0x3F) as u32) << 6) | ((b4 & 0x3F) as u32);
               65536u32 <= c <= 1114111u32 })
{
    assert(({ let c = (((b1 & 0x07) as u32) << 18) | (((b2 & 0x3F) as u32) << 12) | (((b3 & 0x3F) as u32) << 6) | ((b4 & 0x3F) as u32);
               65536u32 <= c && c <= 1114111u32 })) by (bit_vector)
        requires 0xF0 <= b1 <= 0xF4, 0x80 <= b2 <= 0xBF, 0x80 <= b3 <= 0xBF, 0x80 <= b4 <= 0xBF, b1 == 0xF0 ==> b2 >= 0x90, b1 == 0xF4 ==> b2 < 0x90;
}

/// soundness of the accumulator w.r.t. vstd::utf8: what it emits is one well-formed scalar
pub proof fn lemma_complete_scalar_valid(s: Seq<u8>)
    requires complete_ok(s)
    ensures valid_utf8(s), valid_first_scalar(s), length_of_first_scalar(s) == s.len(),
        decode_utf8(s).len() == 1,
{
    assert(valid_leading_and_continuation_bytes_first_codepoint(s));
    if s.len() == 2 { lemma_bits2(s[0], s[1]);
        assert(is_leading_byte_width_2(s[0]));
        assert(decode_first_codepoint(s) == codepoint_width_2(s[0], s[1]));
        assert(length_of_first_codepoint(s) == 2);
    }
    else if s.len() == 3 { lemma_bits3(s[0], s[1], s[2]);
        assert(is_leading_byte_width_3(s[0]));
        assert(decode_first_codepoint(s) == codepoint_width_3(s[0], s[1], s[2]));
        assert(length_of_first_codepoint(s) == 3);
    }
    else { lemma_bits4(s[0], s[1], s[2], s[3]);
        assert(is_leading_byte_width_4(s[0]));
        assert(decode_first_codepoint(s) == codepoint_width_4(s[0], s[1], s[2], s[3]));
        assert(length_of_first_codepoint(s) == 4);
    }
    assert(not_overlong_encoding(decode_first_codepoint(s), length_of_first_codepoint(s)));
    assert(not_surrogate(decode_first_codepoint(s)));
    assert(valid_first_scalar(s));
    assert(pop_first_scalar(s) =~= Seq::<u8>::empty());
    assert(valid_utf8(pop_first_scalar(s)));
    assert(decode_utf8(pop_first_scalar(s)).len() == 0);
}

pub proof fn lemma_scan_append(p0: Seq<u8>, a: Seq<u8>, b: Seq<u8>)
    ensures scan(p0, a + b) == ({ let (p, c) = scan(p0, a); let (p2, c2) = scan(p, b); (p2, c + c2) })
    decreases b.len()
{
    if b.len() == 0 {
        assert(a + b =~= a);
    } else {
        lemma_scan_append(p0, a, b.drop_last());
        assert((a + b).drop_last() =~= a + b.drop_last());
        assert((a + b).last() == b.last());
    }
}

/// completeness: a well-formed multi-byte scalar has a lead in C2..F4 and a second byte in range
pub proof fn lemma_second_ok(s: Seq<u8>)
    requires valid_first_scalar(s), length_of_first_scalar(s) >= 2
    ensures lead_width(s[0]) == length_of_first_scalar(s), second_ok(s[0], s[1])
{
    let b1 = s[0]; let b2 = s[1];
    if is_leading_byte_width_2(b1) {
        assert(decode_first_codepoint(s) == codepoint_width_2(b1, b2));
        assert(128u32 <= (((b1 & 0x1F) as u32) << 6) | ((b2 & 0x3F) as u32) ==> b1 >= 0xC2) by (bit_vector)
            requires 0xC0 <= b1 <= 0xDF, 0x80 <= b2 <= 0xBF;
    } else if is_leading_byte_width_3(b1) {
        let b3 = s[2];
        assert(decode_first_codepoint(s) == codepoint_width_3(b1, b2, b3));
        assert(({ let c = (((b1 & 0x0F) as u32) << 12) | (((b2 & 0x3F) as u32) << 6) | ((b3 & 0x3F) as u32);
               2048u32 <= c && !(55296u32 <= c && c <= 57343u32) }) ==> ((b1 == 0xE0 ==> b2 >= 0xA0) && (b1 == 0xED ==> b2 < 0xA0))) by (bit_vector)
            requires 0xE0 <= b1 <= 0xEF, 0x80 <= b2 <= 0xBF, 0x80 <= b3 <= 0xBF;
    } else {
        let b3 = s[2]; let b4 = s[3];
        assert(decode_first_codepoint(s) == codepoint_width_4(b1, b2, b3, b4));
        assert(({ let c = (((b1 & 0x07) as u32) << 18) | (((b2 & 0x3F) as u32) << 12) | (((b3 & 0x3F) as u32) << 6) | ((b4 & 0x3F) as u32);
               65536u32 <= c && c <= 1114111u32 }) ==> (b1 <= 0xF4 && (b1 == 0xF0 ==> b2 >= 0x90) && (b1 == 0xF4 ==> b2 < 0x90))) by (bit_vector)
            requires 0xF0 <= b1 <= 0xF7, 0x80 <= b2 <= 0xBF, 0x80 <= b3 <= 0xBF, 0x80 <= b4 <= 0xBF;
    }
}

/// completeness: feeding the octets of one well-formed scalar from the idle state emits exactly one scalar
pub proof fn lemma_scan_one_scalar(s: Seq<u8>)
    requires valid_first_scalar(s)
    ensures scan(Seq::empty(), s.subrange(0, length_of_first_scalar(s))) == (Seq::<u8>::empty(), 1nat)
{
    let n = length_of_first_scalar(s);
    let t = s.subrange(0, n);
    reveal_with_fuel(scan, 5);
    if n == 1 {
        assert(t.drop_last() =~= Seq::<u8>::empty());
    } else if n == 2 {
        lemma_second_ok(s);
        assert(t.drop_last() =~= seq![s[0]]);
        assert(t.drop_last().drop_last() =~= Seq::<u8>::empty());
    } else if n == 3 {
        lemma_second_ok(s);
        assert(t.drop_last() =~= seq![s[0], s[1]]);
        assert(t.drop_last().drop_last() =~= seq![s[0]]);
        assert(t.drop_last().drop_last().drop_last() =~= Seq::<u8>::empty());
        assert(seq![s[0]].push(s[1]) =~= seq![s[0], s[1]]);
    } else {
        lemma_second_ok(s);
        assert(t.drop_last() =~= seq![s[0], s[1], s[2]]);
        assert(t.drop_last().drop_last() =~= seq![s[0], s[1]]);
        assert(t.drop_last().drop_last().drop_last() =~= seq![s[0]]);
        assert(t.drop_last().drop_last().drop_last().drop_last() =~= Seq::<u8>::empty());
        assert(seq![s[0]].push(s[1]) =~= seq![s[0], s[1]]);
        assert(seq![s[0], s[1]].push(s[2]) =~= seq![s[0], s[1], s[2]]);
    }
}

/// on well-formed text the accumulator emits exactly the scalars of the text and ends idle
pub proof fn lemma_scan_valid(s: Seq<u8>)
    requires valid_utf8(s)
    ensures scan(Seq::empty(), s) == (Seq::<u8>::empty(), decode_utf8(s).len())
    decreases s.len()
{
    if s.len() == 0 {
    } else {
        let n = length_of_first_scalar(s);
        let rest = pop_first_scalar(s);
        lemma_scan_one_scalar(s);
        lemma_scan_valid(rest);
        lemma_scan_append(Seq::empty(), s.subrange(0, n), rest);
        assert(s.subrange(0, n) + rest =~= s);
    }
}
} // verus!
verus! {
// ---------------------------------------------------------------------------------------------
// prefixes of well-formed text seen by the accumulator
// ---------------------------------------------------------------------------------------------

/// a proper prefix of one well-formed scalar leaves exactly those octets pending
pub proof fn lemma_scan_partial_scalar(s: Seq<u8>, i: int)
    requires valid_first_scalar(s), 0 < i < length_of_first_scalar(s)
    ensures scan(Seq::empty(), s.subrange(0, i)) == (s.subrange(0, i), 0nat)
{
    let n = length_of_first_scalar(s);
    let t = s.subrange(0, i);
    reveal_with_fuel(scan, 5);
    lemma_second_ok(s);
    if i == 1 {
        assert(t.drop_last() =~= Seq::<u8>::empty());
        assert(t =~= seq![s[0]]);
    } else if i == 2 {
        assert(t.drop_last() =~= seq![s[0]]);
        assert(t.drop_last().drop_last() =~= Seq::<u8>::empty());
        assert(seq![s[0]].push(s[1]) =~= t);
    } else {
        assert(t.drop_last() =~= seq![s[0], s[1]]);
        assert(t.drop_last().drop_last() =~= seq![s[0]]);
        assert(t.drop_last().drop_last().drop_last() =~= Seq::<u8>::empty());
        assert(seq![s[0]].push(s[1]) =~= seq![s[0], s[1]]);
        assert(seq![s[0], s[1]].push(s[2]) =~= t);
    }
}

/// validity of the first scalar only depends on its own octets
pub proof fn lemma_first_scalar_prefix(s: Seq<u8>, i: int)
    requires valid_first_scalar(s), length_of_first_scalar(s) <= i <= s.len()
    ensures valid_first_scalar(s.subrange(0, i)),
        length_of_first_scalar(s.subrange(0, i)) == length_of_first_scalar(s),
        decode_first_scalar(s.subrange(0, i)) == decode_first_scalar(s),
        pop_first_scalar(s.subrange(0, i)) == pop_first_scalar(s).subrange(0, i - length_of_first_scalar(s)),
{
    let t = s.subrange(0, i);
    assert(valid_leading_and_continuation_bytes_first_codepoint(t));
    assert(decode_first_codepoint(t) == decode_first_codepoint(s));
    assert(pop_first_scalar(t) =~= pop_first_scalar(s).subrange(0, i - length_of_first_scalar(s)));
}

/// within the first scalar: the step on octet i emits exactly when it is the last octet of the scalar
pub proof fn lemma_first_step_emits(s: Seq<u8>, i: int)
    requires valid_utf8(s), s.len() > 0, 0 <= i < length_of_first_scalar(s)
    ensures (acc_step(if i == 0 { Seq::<u8>::empty() } else { s.subrange(0, i) }, s[i]).1 is Some)
            == is_char_boundary(s, i + 1)
{
    let n = length_of_first_scalar(s);
    let rest = pop_first_scalar(s);
    assert(is_char_boundary(s, i + 1) == is_char_boundary(rest, i + 1 - n));
    assert(is_char_boundary(rest, i + 1 - n) == (i + 1 == n));
    if n >= 2 { lemma_second_ok(s); }
    if i > 0 { assert(s.subrange(0, i)[0] == s[0]); }
}

/// What the accumulator has seen after the first i bytes of well-formed text:
/// it is idle exactly at character boundaries, and there it has emitted the characters of the prefix.
pub proof fn lemma_scan_prefix(s: Seq<u8>, i: int)
    requires valid_utf8(s), 0 <= i <= s.len()
    ensures ({ let (p, c) = scan(Seq::empty(), s.subrange(0, i));
        &&& (p.len() == 0) == is_char_boundary(s, i)
        &&& c <= i
        &&& is_char_boundary(s, i) ==> valid_utf8(s.subrange(0, i)) && c == decode_utf8(s.subrange(0, i)).len()
        &&& i < s.len() ==> (acc_step(p, s[i]).1 is Some) == is_char_boundary(s, i + 1)
    })
    decreases s.len()
{
    if i == 0 {
        assert(s.subrange(0, 0) =~= Seq::<u8>::empty());
        if s.len() > 0 {
            lemma_first_step_emits(s, 0);
        }
    } else {
        let n = length_of_first_scalar(s);
        let rest = pop_first_scalar(s);
        if i < n {
            lemma_scan_partial_scalar(s, i);
            assert(!is_char_boundary(rest, i - n));
            lemma_first_step_emits(s, i);
        } else {
            if i < s.len() { assert(s[i] == rest[i - n]); }
            lemma_scan_one_scalar(s);
            lemma_scan_prefix(rest, i - n);
            lemma_scan_append(Seq::empty(), s.subrange(0, n), rest.subrange(0, i - n));
            assert(s.subrange(0, n) + rest.subrange(0, i - n) =~= s.subrange(0, i));
            lemma_first_scalar_prefix(s, i);
            if is_char_boundary(s, i) {
                let t = s.subrange(0, i);
                assert(valid_utf8(pop_first_scalar(t)));
                assert(valid_utf8(t));
                assert(decode_utf8(t).len() == 1 + decode_utf8(pop_first_scalar(t)).len());
            }
        }
    }
}

/// at a character boundary i of well-formed text: the text splits there, and the byte offset is the
/// encoded length of the characters before it
pub proof fn lemma_boundary_offset(s: Seq<u8>, i: int)
    requires valid_utf8(s), 0 <= i <= s.len(), is_char_boundary(s, i)
    ensures valid_utf8(s.subrange(0, i)), valid_utf8(s.subrange(i, s.len() as int)),
        decode_utf8(s) == decode_utf8(s.subrange(0, i)) + decode_utf8(s.subrange(i, s.len() as int)),
        decode_utf8(s.subrange(0, i)) == decode_utf8(s).subrange(0, decode_utf8(s.subrange(0, i)).len() as int),
        encode_utf8(decode_utf8(s).subrange(0, decode_utf8(s.subrange(0, i)).len() as int)).len() == i,
        (i < s.len()) == (decode_utf8(s.subrange(0, i)).len() < decode_utf8(s).len()),
{
    valid_utf8_split(s, i);
    decode_utf8_split(s, i);
    let a = s.subrange(0, i);
    let b = s.subrange(i, s.len() as int);
    assert(decode_utf8(s).subrange(0, decode_utf8(a).len() as int) =~= decode_utf8(a));
    decode_utf8_encode_utf8(a);
    if i < s.len() {
        assert(b.len() > 0);
        assert(decode_utf8(b).len() > 0);
    } else {
        assert(b =~= Seq::<u8>::empty());
    }
}
} // verus!
verus! {
/// byte offset of the k-th character of a text
pub open spec fn byte_off(cs: Seq<char>, k: int) -> int { encode_utf8(cs.subrange(0, k)).len() as int }

/// number of leading spaces
pub open spec fn leading_spaces(s: Seq<u8>) -> int
    decreases s.len()
{
    if s.len() > 0 && s[0] == 0x20 { 1 + leading_spaces(s.drop_first()) } else { 0 }
}
pub open spec fn trim_start_spec(s: Seq<u8>) -> Seq<u8> { s.subrange(leading_spaces(s), s.len() as int) }
} // verus!
verus! {
// ---------------------------------------------------------------------------------------------
// char_pop_front: incremental decoding of the first scalar
// ---------------------------------------------------------------------------------------------

/// value accumulated by `char_pop_front` after consuming k octets of the first scalar of s
pub open spec fn pop_partial(s: Seq<u8>, k: int) -> u32 {
    let n = length_of_first_scalar(s);
    let b0 = if n == 1 { s[0] as u32 } else if n == 2 { (s[0] & 0x1F) as u32 } else { (s[0] & 0x0F) as u32 };
    if k <= 1 { b0 }
    else if k == 2 { (b0 << 6) | ((s[1] as u32) & 0x3F) }
    else if k == 3 { (((b0 << 6) | ((s[1] as u32) & 0x3F)) << 6) | ((s[2] as u32) & 0x3F) }
    else { (((((b0 << 6) | ((s[1] as u32) & 0x3F)) << 6) | ((s[2] as u32) & 0x3F)) << 6) | ((s[3] as u32) & 0x3F) }
}

pub proof fn lemma_cont_mask(b: u8)
    ensures ((b & 0xC0) == 0x80) == is_continuation_byte(b)
{
    assert(((b & 0xC0) == 0x80) == (0x80 <= b && b <= 0xBF)) by (bit_vector);
}

/// shape of the lead byte of a well-formed first scalar, as tested by char_pop_front
pub proof fn lemma_second_ok_or_ascii(s: Seq<u8>)
    requires valid_first_scalar(s)
    ensures
        length_of_first_scalar(s) == 1 <==> s[0] < 0x80,
        length_of_first_scalar(s) == 2 <==> (s[0] & 0xE0) == 0xC0,
        s.len() >= length_of_first_scalar(s),
        forall|j: int| 1 <= j < length_of_first_scalar(s) ==> is_continuation_byte(#[trigger] s[j]),
{
    let b = s[0];
    assert(((b & 0xE0) == 0xC0) == (0xC0 <= b && b <= 0xDF)) by (bit_vector);
}

pub proof fn lemma_pop_front_bits(s: Seq<u8>)
    requires valid_first_scalar(s)
    ensures pop_partial(s, 1) == (if s[0] < 0x80 { s[0] as u32 } else if (s[0] & 0xE0) == 0xC0 { (s[0] & 0x1F) as u32 } else { (s[0] & 0x0F) as u32 })
{
    lemma_second_ok_or_ascii(s);
}

pub proof fn lemma_pop_step(s: Seq<u8>, k: int, cp: u32)
    requires valid_first_scalar(s), 1 <= k < length_of_first_scalar(s), cp == pop_partial(s, k)
    ensures ((cp << 6) | ((s[k] as u32) & 0x3F)) == pop_partial(s, k + 1)
{
}

/// after all octets of the first scalar: the accumulated value is the decoded scalar, and it is a scalar value
pub proof fn lemma_pop_final(s: Seq<u8>)
    requires valid_first_scalar(s)
    ensures pop_partial(s, length_of_first_scalar(s)) == decode_first_scalar(s),
        is_scalar(decode_first_scalar(s)),
{
    let n = length_of_first_scalar(s);
    let b1 = s[0];
    lemma_second_ok_or_ascii(s);
    if n == 1 {
        assert(b1 & 0x7F == b1) by (bit_vector) requires b1 < 0x80;
    } else if n == 2 {
        let b2 = s[1];
        assert((((b1 & 0x1F) as u32) << 6) | ((b2 as u32) & 0x3F) == (((b1 & 0x1F) as u32) << 6) | ((b2 & 0x3F) as u32)) by (bit_vector);
        assert((((b1 & 0x1F) as u32) << 6) | ((b2 & 0x3F) as u32) <= 2047u32) by (bit_vector);
    } else if n == 3 {
        let b2 = s[1]; let b3 = s[2];
        assert((((((b1 & 0x0F) as u32) << 6) | ((b2 as u32) & 0x3F)) << 6) | ((b3 as u32) & 0x3F)
            == (((b1 & 0x0F) as u32) << 12) | (((b2 & 0x3F) as u32) << 6) | ((b3 & 0x3F) as u32)) by (bit_vector);
        assert((((b1 & 0x0F) as u32) << 12) | (((b2 & 0x3F) as u32) << 6) | ((b3 & 0x3F) as u32) <= 65535u32) by (bit_vector);
    } else {
        let b2 = s[1]; let b3 = s[2]; let b4 = s[3];
        assert((((((((b1 & 0x0F) as u32) << 6) | ((b2 as u32) & 0x3F)) << 6) | ((b3 as u32) & 0x3F)) << 6) | ((b4 as u32) & 0x3F)
            == (((b1 & 0x07) as u32) << 18) | (((b2 & 0x3F) as u32) << 12) | (((b3 & 0x3F) as u32) << 6) | ((b4 & 0x3F) as u32)) by (bit_vector)
            requires 0xF0 <= b1 <= 0xF7;
    }
}
} // verus!
verus! {
// ---------------------------------------------------------------------------------------------
// encode_utf8: loop invariant and bit-level step lemmas
// ---------------------------------------------------------------------------------------------
pub open spec fn enc_loop_inv(orig: u32, len: int, counter: int, code: u32, buf: Seq<u8>) -> bool {
    &&& 2 <= len <= 4 && 0 <= counter < len && buf.len() >= len
    &&& code == (if len - 1 - counter == 0 { orig } else if len - 1 - counter == 1 { orig >> 6 }
                 else if len - 1 - counter == 2 { orig >> 12 } else { orig >> 18 })
    &&& (counter < len - 1 ==> buf[len - 1] == last_continuation_byte(orig))
    &&& (counter < len - 2 ==> buf[len - 2] == second_last_continuation_byte(orig))
    &&& (counter < len - 3 ==> buf[len - 3] == third_last_continuation_byte(orig))
}

pub proof fn lemma_enc_len(orig: u32)
    requires is_scalar(orig)
    ensures
        encode_scalar(orig).len() == 1 <==> orig < 0x80,
        encode_scalar(orig).len() == 2 <==> 0x80 <= orig < 0x800,
        encode_scalar(orig).len() == 3 <==> 0x800 <= orig < 0x10000,
        encode_scalar(orig).len() == 4 <==> 0x10000 <= orig,
        1 <= encode_scalar(orig).len() <= 4,
{
}

pub proof fn lemma_enc_step(orig: u32, len: int, counter: int, code: u32, buf: Seq<u8>)
    requires enc_loop_inv(orig, len, counter, code, buf), counter > 0, is_scalar(orig), orig >= 0x80,
        len == encode_scalar(orig).len(),
    ensures enc_loop_inv(orig, len, counter - 1, code >> 6,
        buf.update(counter, ((code as u8) & 0b0011_1111) | 0b1000_0000)),
{
    lemma_enc_len(orig);
    assert(((orig as u8) & 0x3F) | 0x80 == 0x80u8 | ((orig & 0x3F) as u8)) by (bit_vector);
    assert((((orig >> 6) as u8) & 0x3F) | 0x80 == 0x80u8 | (((orig >> 6) & 0x3F) as u8)) by (bit_vector);
    assert((((orig >> 12) as u8) & 0x3F) | 0x80 == 0x80u8 | (((orig >> 12) & 0x3F) as u8)) by (bit_vector);
    assert((orig >> 6) >> 6 == orig >> 12) by (bit_vector);
    assert((orig >> 12) >> 6 == orig >> 18) by (bit_vector);
    let t = len - 1 - counter;
    let nb = buf.update(counter, ((code as u8) & 0b0011_1111) | 0b1000_0000);
    if t == 0 {
        assert(nb[len - 1] == last_continuation_byte(orig));
    } else if t == 1 {
        assert(nb[len - 2] == second_last_continuation_byte(orig));
    } else {
        assert(nb[len - 3] == third_last_continuation_byte(orig));
    }
}

pub proof fn lemma_enc_final(orig: u32, len: int, code: u32, mask: u8, buf: Seq<u8>)
    requires enc_loop_inv(orig, len, 0, code, buf), is_scalar(orig), orig >= 0x80,
        len == encode_scalar(orig).len(),
        mask == (if len == 2 { 0xC0u8 } else if len == 3 { 0xE0u8 } else { 0xF0u8 }),
    ensures buf.update(0, code as u8 | mask).subrange(0, len) =~= encode_scalar(orig),
{
    lemma_enc_len(orig);
    if len == 2 {
        assert(((orig >> 6) as u8) | 0xC0 == 0xC0u8 | (((orig >> 6) & 0x1F) as u8)) by (bit_vector) requires orig < 0x800;
    } else if len == 3 {
        assert(((orig >> 12) as u8) | 0xE0 == 0xE0u8 | (((orig >> 12) & 0x0F) as u8)) by (bit_vector) requires orig < 0x10000;
    } else {
        assert(((orig >> 18) as u8) | 0xF0 == 0xF0u8 | (((orig >> 18) & 0x07) as u8)) by (bit_vector) requires orig < 0x110000;
    }
}
} // verus!
verus! {
pub proof fn lemma_leading_spaces(s: Seq<u8>, pos: int)
    requires 0 <= pos <= s.len(), forall|i: int| 0 <= i < pos ==> s[i] == 0x20, pos < s.len() ==> s[pos] != 0x20
    ensures leading_spaces(s) == pos
    decreases pos
{
    if pos > 0 {
        lemma_leading_spaces(s.drop_first(), pos - 1);
    }
}

/// a run of ASCII bytes at the start of well-formed text ends on a character boundary
pub proof fn lemma_ascii_prefix_boundary(s: Seq<u8>, pos: int)
    requires valid_utf8(s), 0 <= pos <= s.len(), forall|i: int| 0 <= i < pos ==> s[i] < 0x80
    ensures is_char_boundary(s, pos)
    decreases pos
{
    if pos > 0 {
        assert(is_leading_byte_width_1(s[0]));
        assert(length_of_first_scalar(s) == 1);
        let rest = pop_first_scalar(s);
        assert forall|i: int| 0 <= i < pos - 1 implies rest[i] < 0x80 by { assert(rest[i] == s[i + 1]); }
        lemma_ascii_prefix_boundary(rest, pos - 1);
    }
}
} // verus!
verus! {
// ---------------------------------------------------------------------------------------------
// "valid prefix" reasoning: byte-at-a-time producers of UTF-8 (Tokens::new)
// ---------------------------------------------------------------------------------------------

/// s is well-formed text followed by the octets p of a scalar in progress
pub open spec fn vp(s: Seq<u8>, p: Seq<u8>) -> bool {
    s.len() >= p.len() && valid_utf8(s.subrange(0, s.len() - p.len())) && s.subrange(s.len() - p.len(), s.len() as int) == p
    && pending_ok(p)
}

pub proof fn lemma_vp_step(s: Seq<u8>, p: Seq<u8>, b: u8)
    requires vp(s, p), good_step(p, b)
    ensures vp(s.push(b), acc_step(p, b).0)
{
    let v = s.subrange(0, s.len() - p.len());
    let s2 = s.push(b);
    let p2 = acc_step(p, b).0;
    if p.len() == 0 {
        assert(v =~= s);
        if b < 0x80 {
            lemma_ascii_valid(b);
            valid_utf8_concat(s, seq![b]);
            assert(s + seq![b] =~= s2);
            assert(s2.subrange(0, s2.len() as int) =~= s2);
            assert(s2.subrange(s2.len() as int, s2.len() as int) =~= Seq::<u8>::empty());
        } else {
            assert(p2 == seq![b]);
            assert(s2.subrange(0, s2.len() - 1) =~= s);
            assert(s2.subrange(s2.len() - 1, s2.len() as int) =~= seq![b]);
        }
    } else {
        let q = p.push(b);
        assert(s2.subrange(s2.len() - q.len(), s2.len() as int) =~= q);
        assert(s2.subrange(0, s2.len() - q.len()) =~= v);
        if p.len() + 1 == lead_width(p[0]) {
            assert(complete_ok(q));
            lemma_complete_scalar_valid(q);
            valid_utf8_concat(v, q);
            assert(v + q =~= s2);
            assert(s2.subrange(0, s2.len() as int) =~= s2);
            assert(s2.subrange(s2.len() as int, s2.len() as int) =~= Seq::<u8>::empty());
        } else {
            assert(p2 == q);
        }
    }
}

/// in well-formed text every next byte continues well-formed text
pub proof fn lemma_valid_next_good(s: Seq<u8>, i: int)
    requires valid_utf8(s), 0 <= i < s.len()
    ensures good_step(scan(Seq::empty(), s.subrange(0, i)).0, s[i]),
        scan(Seq::empty(), s.subrange(0, i + 1)).0 == acc_step(scan(Seq::empty(), s.subrange(0, i)).0, s[i]).0,
    decreases s.len()
{
    assert(s.subrange(0, i + 1).drop_last() =~= s.subrange(0, i));
    let n = length_of_first_scalar(s);
    let rest = pop_first_scalar(s);
    if i < n {
        if i == 0 {
            assert(s.subrange(0, 0) =~= Seq::<u8>::empty());
            if n >= 2 { lemma_second_ok(s); }
        } else {
            lemma_scan_partial_scalar(s, i);
            lemma_second_ok(s);
            assert(s.subrange(0, i)[0] == s[0]);
            if i >= 2 { assert(s.subrange(0, i)[1] == s[1]); }
        }
    } else {
        lemma_scan_one_scalar(s);
        lemma_valid_next_good(rest, i - n);
        lemma_scan_append(Seq::empty(), s.subrange(0, n), rest.subrange(0, i - n));
        assert(s.subrange(0, n) + rest.subrange(0, i - n) =~= s.subrange(0, i));
        assert(s[i] == rest[i - n]);
    }
}

/// a boundary of a suffix that starts on a boundary is a boundary of the whole text
pub proof fn lemma_boundary_add(s: Seq<u8>, i: int, j: int)
    requires valid_utf8(s), 0 <= i <= s.len(), is_char_boundary(s, i), 0 <= j <= s.len() - i,
        valid_utf8(s.subrange(i, s.len() as int)), is_char_boundary(s.subrange(i, s.len() as int), j),
    ensures is_char_boundary(s, i + j)
    decreases i
{
    if i == 0 {
        assert(s.subrange(0, s.len() as int) =~= s);
    } else {
        let n = length_of_first_scalar(s);
        let rest = pop_first_scalar(s);
        assert(is_char_boundary(rest, i - n));
        assert(rest.subrange(i - n, rest.len() as int) =~= s.subrange(i, s.len() as int));
        lemma_boundary_add(rest, i - n, j);
        if i + j > 0 { }
    }
}

/// an ASCII byte of well-formed text sits between two character boundaries
pub proof fn lemma_ascii_boundaries(s: Seq<u8>, i: int)
    requires valid_utf8(s), 0 <= i < s.len(), s[i] < 0x80
    ensures is_char_boundary(s, i), is_char_boundary(s, i + 1)
{
    is_char_boundary_iff_not_is_continuation_byte(s, i);
    valid_utf8_split(s, i);
    let t = s.subrange(i, s.len() as int);
    assert(t[0] == s[i]);
    assert(is_leading_byte_width_1(t[0]));
    assert(length_of_first_scalar(t) == 1);
    assert(is_char_boundary(pop_first_scalar(t), 0));
    assert(is_char_boundary(t, 1));
    lemma_boundary_add(s, i, 1);
}
} // verus!
verus! {
/// a well-formed prefix of well-formed text ends on a character boundary
pub proof fn lemma_valid_prefix_is_boundary(s: Seq<u8>, k: int)
    requires valid_utf8(s), 0 <= k <= s.len(), valid_utf8(s.subrange(0, k))
    ensures is_char_boundary(s, k)
{
    lemma_scan_valid(s.subrange(0, k));
    lemma_scan_prefix(s, k);
}
} // verus!
