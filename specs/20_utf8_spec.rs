// UTF-8 accumulator: abstract step function and theorems over vstd::utf8 (Unicode Table 3-7).
verus! {
pub open spec fn lead_width(b: u8) -> int {
    if 0xC2 <= b <= 0xDF { 2 } else if 0xE0 <= b <= 0xEF { 3 } else if 0xF0 <= b <= 0xF4 { 4 } else { 0 }
}

pub open spec fn second_ok(first: u8, b: u8) -> bool {
    is_continuation_byte(b) && (first == 0xE0 ==> b >= 0xA0) && (first == 0xED ==> b < 0xA0)
      && (first == 0xF0 ==> b >= 0x90) && (first == 0xF4 ==> b < 0x90)
}

/// octets of a scalar in progress: empty, or a proper prefix of a well-formed multi-byte scalar
pub open spec fn pending_ok(p: Seq<u8>) -> bool {
    p.len() == 0 || (lead_width(p[0]) > p.len() && (p.len() >= 2 ==> second_ok(p[0], p[1]))
       && (p.len() >= 3 ==> is_continuation_byte(p[2])))
}

/// One step of the ideal accumulator: (pending', emitted scalar bytes).
/// ASCII restarts and is emitted; a lead byte restarts; anything that cannot continue the pending
/// scalar is dropped together with the pending octets.
pub open spec fn acc_step(p: Seq<u8>, b: u8) -> (Seq<u8>, Option<Seq<u8>>) {
    if b < 0x80 { (Seq::empty(), Some(seq![b])) }
    else if lead_width(b) > 0 { (seq![b], None) }
    else if !is_continuation_byte(b) { (Seq::empty(), None) }
    else if p.len() == 0 { (Seq::empty(), None) }
    else if p.len() == 1 && !second_ok(p[0], b) { (Seq::empty(), None) }
    else if p.len() + 1 == lead_width(p[0]) { (Seq::empty(), Some(p.push(b))) }
    else { (p.push(b), None) }
}

/// fold of acc_step: (pending after s, number of scalars emitted)
pub open spec fn scan(p0: Seq<u8>, s: Seq<u8>) -> (Seq<u8>, nat)
    decreases s.len()
{
    if s.len() == 0 { (p0, 0) } else {
        let (p, c) = scan(p0, s.drop_last());
        let (p2, o) = acc_step(p, s.last());
        (p2, if o is Some { c + 1 } else { c })
    }
}

pub open spec fn complete_ok(s: Seq<u8>) -> bool {
    2 <= s.len() <= 4 && lead_width(s[0]) == s.len() && second_ok(s[0], s[1])
      && (s.len() >= 3 ==> is_continuation_byte(s[2])) && (s.len() >= 4 ==> is_continuation_byte(s[3]))
}

pub proof fn lemma_ascii_valid(b: u8)
    requires b < 0x80
    ensures valid_utf8(seq![b]), valid_first_scalar(seq![b]), length_of_first_scalar(seq![b]) == 1,
        decode_utf8(seq![b]).len() == 1,
{
    let s = seq![b];
    assert(valid_first_scalar(s));
    assert(pop_first_scalar(s) =~= Seq::<u8>::empty());
    assert(valid_utf8(pop_first_scalar(s)));
    assert(decode_utf8(pop_first_scalar(s)).len() == 0);
}

proof fn lemma_bits2(b1: u8, b2: u8)
    requires 0xC2 <= b1 <= 0xDF, 0x80 <= b2 <= 0xBF
    ensures 128u32 <= (((b1 & 0x1F) as u32) << 6) | ((b2 & 0x3F) as u32) <= 2047u32
{
    assert(128u32 <= (((b1 & 0x1F) as u32) << 6) | ((b2 & 0x3F) as u32) && (((b1 & 0x1F) as u32) << 6) | ((b2 & 0x3F) as u32) <= 2047u32) by (bit_vector)
        requires 0xC2 <= b1 <= 0xDF, 0x80 <= b2 <= 0xBF;
}
proof fn lemma_bits3(b1: u8, b2: u8, b3: u8)
    requires 0xE0 <= b1 <= 0xEF, 0x80 <= b2 <= 0xBF, 0x80 <= b3 <= 0xBF, b1 == 0xE0 ==> b2 >= 0xA0, b1 == 0xED ==> b2 < 0xA0
    ensures ({ let c = (((b1 & 0x0F) as u32) << 12) | (((b2 & 0x3F) as u32) << 6) | ((b3 & 0x3F) as u32);
               2048u32 <= c && !(55296u32 <= c <= 57343u32) })
{
    assert(({ let c = (((b1 & 0x0F) as u32) << 12) | (((b2 & 0x3F) as u32) << 6) | ((b3 & 0x3F) as u32);
               2048u32 <= c && !(55296u32 <= c && c <= 57343u32) })) by (bit_vector)
        requires 0xE0 <= b1 <= 0xEF, 0x80 <= b2 <= 0xBF, 0x80 <= b3 <= 0xBF, b1 == 0xE0 ==> b2 >= 0xA0, b1 == 0xED ==> b2 < 0xA0;
}
proof fn lemma_bits4(b1: u8, b2: u8, b3: u8, b4: u8)
    requires 0xF0 <= b1 <= 0xF4, 0x80 <= b2 <= 0xBF, 0x80 <= b3 <= 0xBF, 0x80 <= b4 <= 0xBF, b1 == 0xF0 ==> b2 >= 0x90, b1 == 0xF4 ==> b2 < 0x90
    ensures ({ let c = (((b1 & 0x07) as u32) << 18) | (((b2 & 0x3F) as u32) << 12) | (((b3 & 0x3F) as u32) << 6) | ((b4 & 0x3F) as u32);
               65536u32 <= c <= 1114111u32 })
{
    assert(({ let c = (((b1 & 0x07) as u32) << 18) | (((b2 & 0x3F) as u32) << 12) | (((b3 & 0x3F) as u32) << 6) | ((b4 & 0x3F) as u32);
               65536u32 <= c && c <= 1114111u32 })) by (bit_vector)
        requires 0xF0 <= b1 <= 0xF4, 0x80 <= b2 <= 0xBF, 0x80 <= b3 <= 0xBF, 0x80 <= b4 <= 0xBF, b1 == 0xF0 ==> b2 >= 0x90, b1 == 0xF4 ==> b2 < 0x90;
}

/// soundness of the accumulator w.r.t. vstd::utf8: what it emits is one well-formed scalar
pub proof fn lemma_complete_scalar_valid(s: Seq<u8>)
    requires complete_ok(s)
    ensures valid_utf8(s), valid_first_scalar(s), length_of_first_scalar(s) == s.len(),
        decode_utf8(s).len() == 1,
{
    assert(valid_leading_and_continuation_bytes_first_codepoint(s));
    if s.len() == 2 { lemma_bits2(s[0], s[1]);
        assert(is_leading_byte_width_2(s[0]));
        assert(decode_first_codepoint(s) == codepoint_width_2(s[0], s[1]));
        assert(length_of_first_codepoint(s) == 2);
    }
    else if s.len() == 3 { lemma_bits3(s[0], s[1], s[2]);
        assert(is_leading_byte_width_3(s[0]));
        assert(decode_first_codepoint(s) == codepoint_width_3(s[0], s[1], s[2]));
        assert(length_of_first_codepoint(s) == 3);
    }
    else { lemma_bits4(s[0], s[1], s[2], s[3]);
        assert(is_leading_byte_width_4(s[0]));
        assert(decode_first_codepoint(s) == codepoint_width_4(s[0], s[1], s[2], s[3]));
        assert(length_of_first_codepoint(s) == 4);
    }
    assert(not_overlong_encoding(decode_first_codepoint(s), length_of_first_codepoint(s)));
    assert(not_surrogate(decode_first_codepoint(s)));
    assert(valid_first_scalar(s));
    assert(pop_first_scalar(s) =~= Seq::<u8>::empty());
    assert(valid_utf8(pop_first_scalar(s)));
    assert(decode_utf8(pop_first_scalar(s)).len() == 0);
}

pub proof fn lemma_scan_append(p0: Seq<u8>, a: Seq<u8>, b: Seq<u8>)
    ensures scan(p0, a + b) == ({ let (p, c) = scan(p0, a); let (p2, c2) = scan(p, b); (p2, c + c2) })
    decreases b.len()
{
    if b.len() == 0 {
        assert(a + b =~= a);
    } else {
        lemma_scan_append(p0, a, b.drop_last());
        assert((a + b).drop_last() =~= a + b.drop_last());
        assert((a + b).last() == b.last());
    }
}

/// completeness: a well-formed multi-byte scalar has a lead in C2..F4 and a second byte in range
pub proof fn lemma_second_ok(s: Seq<u8>)
    requires valid_first_scalar(s), length_of_first_scalar(s) >= 2
    ensures lead_width(s[0]) == length_of_first_scalar(s), second_ok(s[0], s[1])
{
    let b1 = s[0]; let b2 = s[1];
    if is_leading_byte_width_2(b1) {
        assert(decode_first_codepoint(s) == codepoint_width_2(b1, b2));
        assert(128u32 <= (((b1 & 0x1F) as u32) << 6) | ((b2 & 0x3F) as u32) ==> b1 >= 0xC2) by (bit_vector)
            requires 0xC0 <= b1 <= 0xDF, 0x80 <= b2 <= 0xBF;
    } else if is_leading_byte_width_3(b1) {
        let b3 = s[2];
        assert(decode_first_codepoint(s) == codepoint_width_3(b1, b2, b3));
        assert(({ let c = (((b1 & 0x0F) as u32) << 12) | (((b2 & 0x3F) as u32) << 6) | ((b3 & 0x3F) as u32);
               2048u32 <= c && !(55296u32 <= c && c <= 57343u32) }) ==> ((b1 == 0xE0 ==> b2 >= 0xA0) && (b1 == 0xED ==> b2 < 0xA0))) by (bit_vector)
            requires 0xE0 <= b1 <= 0xEF, 0x80 <= b2 <= 0xBF, 0x80 <= b3 <= 0xBF;
    } else {
        let b3 = s[2]; let b4 = s[3];
        assert(decode_first_codepoint(s) == codepoint_width_4(b1, b2, b3, b4));
        assert(({ let c = (((b1 & 0x07) as u32) << 18) | (((b2 & 0x3F) as u32) << 12) | (((b3 & 0x3F) as u32) << 6) | ((b4 & 0x3F) as u32);
               65536u32 <= c && c <= 1114111u32 }) ==> (b1 <= 0xF4 && (b1 == 0xF0 ==> b2 >= 0x90) && (b1 == 0xF4 ==> b2 < 0x90))) by (bit_vector)
            requires 0xF0 <= b1 <= 0xF7, 0x80 <= b2 <= 0xBF, 0x80 <= b3 <= 0xBF, 0x80 <= b4 <= 0xBF;
    }
}

/// completeness: feeding the octets of one well-formed scalar from the idle state emits exactly one scalar
pub proof fn lemma_scan_one_scalar(s: Seq<u8>)
    requires valid_first_scalar(s)
    ensures scan(Seq::empty(), s.subrange(0, length_of_first_scalar(s))) == (Seq::<u8>::empty(), 1nat)
{
    let n = length_of_first_scalar(s);
    let t = s.subrange(0, n);
    reveal_with_fuel(scan, 5);
    if n == 1 {
        assert(t.drop_last() =~= Seq::<u8>::empty());
    } else if n == 2 {
        lemma_second_ok(s);
        assert(t.drop_last() =~= seq![s[0]]);
        assert(t.drop_last().drop_last() =~= Seq::<u8>::empty());
    } else if n == 3 {
        lemma_second_ok(s);
        assert(t.drop_last() =~= seq![s[0], s[1]]);
        assert(t.drop_last().drop_last() =~= seq![s[0]]);
        assert(t.drop_last().drop_last().drop_last() =~= Seq::<u8>::empty());
        assert(seq![s[0]].push(s[1]) =~= seq![s[0], s[1]]);
    } else {
        lemma_second_ok(s);
        assert(t.drop_last() =~= seq![s[0], s[1], s[2]]);
        assert(t.drop_last().drop_last() =~= seq![s[0], s[1]]);
        assert(t.drop_last().drop_last().drop_last() =~= seq![s[0]]);
        assert(t.drop_last().drop_last().drop_last().drop_last() =~= Seq::<u8>::empty());
        assert(seq![s[0]].push(s[1]) =~= seq![s[0], s[1]]);
        assert(seq![s[0], s[1]].push(s[2]) =~= seq![s[0], s[1], s[2]]);
    }
}

/// on well-formed text the accumulator emits exactly the scalars of the text and ends idle
pub proof fn lemma_scan_valid(s: Seq<u8>)
    requires valid_utf8(s)
    ensures scan(Seq::empty(), s) == (Seq::<u8>::empty(), decode_utf8(s).len())
    decreases s.len()
{
    if s.len() == 0 {
    } else {
        let n = length_of_first_scalar(s);
        let rest = pop_first_scalar(s);
        lemma_scan_one_scalar(s);
        lemma_scan_valid(rest);
        lemma_scan_append(Seq::empty(), s.subrange(0, n), rest);
        assert(s.subrange(0, n) + rest =~= s);
    }
}
} // verus!
