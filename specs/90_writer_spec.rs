// Application output framing (C13): LF -> CR LF conversion.
verus! {
/// every LF becomes CR LF, everything else is unchanged
pub open spec fn lf_to_crlf(s: Seq<u8>) -> Seq<u8>
    decreases s.len()
{
    if s.len() == 0 { Seq::empty() }
    else if s.last() == 0x0A { lf_to_crlf(s.drop_last()) + seq![0x0Du8, 0x0Au8] }
    else { lf_to_crlf(s.drop_last()).push(s.last()) }
}

pub open spec fn no_lf(s: Seq<u8>) -> bool { forall|i: int| 0 <= i < s.len() ==> s[i] != 0x0A }

pub proof fn lemma_crlf_no_lf(s: Seq<u8>)
    requires no_lf(s)
    ensures lf_to_crlf(s) == s
    decreases s.len()
{
    if s.len() > 0 {
        lemma_crlf_no_lf(s.drop_last());
        assert(s.drop_last().push(s.last()) =~= s);
    }
}

pub proof fn lemma_crlf_concat(a: Seq<u8>, b: Seq<u8>)
    ensures lf_to_crlf(a + b) == lf_to_crlf(a) + lf_to_crlf(b)
    decreases b.len()
{
    if b.len() == 0 {
        assert(a + b =~= a);
        assert(lf_to_crlf(a) + lf_to_crlf(b) =~= lf_to_crlf(a));
    } else {
        lemma_crlf_concat(a, b.drop_last());
        assert((a + b).drop_last() =~= a + b.drop_last());
        assert((a + b).last() == b.last());
        if b.last() == 0x0A {
            assert(lf_to_crlf(a + b) =~= lf_to_crlf(a) + lf_to_crlf(b));
        } else {
            assert(lf_to_crlf(a + b) =~= lf_to_crlf(a) + lf_to_crlf(b));
        }
    }
}

/// splitting at the first LF: text = line + LF + rest
pub proof fn lemma_crlf_split(s: Seq<u8>, pos: int)
    requires 0 <= pos < s.len(), s[pos] == 0x0A, forall|i: int| 0 <= i < pos ==> s[i] != 0x0A
    ensures lf_to_crlf(s) == s.subrange(0, pos) + seq![0x0Du8, 0x0Au8] + lf_to_crlf(s.subrange(pos + 1, s.len() as int))
{
    let a = s.subrange(0, pos);
    let m = seq![0x0Au8];
    let b = s.subrange(pos + 1, s.len() as int);
    assert(s =~= a + m + b);
    lemma_crlf_concat(a + m, b);
    lemma_crlf_concat(a, m);
    lemma_crlf_no_lf(a);
    reveal_with_fuel(lf_to_crlf, 2);
    assert(m.drop_last() =~= Seq::<u8>::empty());
    assert(lf_to_crlf(m) =~= seq![0x0Du8, 0x0Au8]);
}

pub proof fn lemma_ev_bytes_push(evs: Seq<embedded_io::Ev>, e: embedded_io::Ev)
    ensures ev_bytes(evs.push(e)) == match e { embedded_io::Ev::W(b) => ev_bytes(evs) + b, embedded_io::Ev::F => ev_bytes(evs) }
{
    assert(evs.push(e).drop_last() =~= evs);
}

/// bytes of the log from index `from` on
pub open spec fn ev_bytes_from(evs: Seq<embedded_io::Ev>, from: int) -> Seq<u8> {
    if 0 <= from <= evs.len() { ev_bytes(evs.skip(from)) } else { Seq::empty() }
}

pub proof fn lemma_ev_bytes_from_push(evs: Seq<embedded_io::Ev>, from: int, e: embedded_io::Ev)
    requires 0 <= from <= evs.len()
    ensures ev_bytes_from(evs.push(e), from) == match e {
        embedded_io::Ev::W(b) => ev_bytes_from(evs, from) + b, embedded_io::Ev::F => ev_bytes_from(evs, from) }
{
    assert(evs.push(e).skip(from) =~= evs.skip(from).push(e));
    lemma_ev_bytes_push(evs.skip(from), e);
}
} // verus!
verus! {
pub proof fn lemma_crlf_bytes()
    ensures "\r\n".spec_bytes() == seq![0x0Du8, 0x0Au8]
{
    reveal_strlit("\r\n");
    let s = "\r\n"@;
    assert(s =~= seq!['\r', '\n']);
    assert(is_ascii_chars(s));
    is_ascii_chars_encode_utf8(s);
    assert(encode_utf8(s) =~= seq![0x0Du8, 0x0Au8]);
}
} // verus!
