// Terminal model for C06: what an ECMA-48 / VT100 terminal shows on its current line after the sink events so far.
// One cell per character (width-1 assumption), no wrapping; cells are a total function so that "ignoring trailing
// blanks" is simply "every cell beyond the text is blank".
verus! {
pub struct Term {
    pub cells: spec_fn(int) -> char,
    pub col: int,
}

pub open spec fn blank_cells() -> spec_fn(int) -> char { |i: int| ' ' }

/// a terminal at the start of an empty line
pub open spec fn term_fresh() -> Term { Term { cells: blank_cells(), col: 0 } }

pub open spec fn is_fresh(t: Term) -> bool { t.col == 0 && forall|i: int| #[trigger] (t.cells)(i) == ' ' }

/// text the model interprets as printable: well-formed UTF-8 without C0 controls and DEL
/// (C1 controls U+0080..U+009F are not excluded: UTF-8 terminals do not act on them -- assumption)
pub open spec fn printable_bytes(w: Seq<u8>) -> bool {
    valid_utf8(w) && forall|i: int| 0 <= i < w.len() ==> #[trigger] w[i] >= 0x20 && w[i] != 0x7F
}

pub open spec fn seq_cr() -> Seq<u8> { seq![0x0Du8] }
pub open spec fn seq_el2() -> Seq<u8> { seq![0x1Bu8, 0x5Bu8, 0x32u8, 0x4Bu8] }
pub open spec fn seq_cuf() -> Seq<u8> { seq![0x1Bu8, 0x5Bu8, 0x43u8] }
pub open spec fn seq_cub() -> Seq<u8> { seq![0x1Bu8, 0x5Bu8, 0x44u8] }
pub open spec fn seq_ich() -> Seq<u8> { seq![0x1Bu8, 0x5Bu8, 0x40u8] }
pub open spec fn seq_dch() -> Seq<u8> { seq![0x1Bu8, 0x5Bu8, 0x50u8] }

pub open spec fn ends_crlf(w: Seq<u8>) -> bool { w.len() >= 2 && w[w.len() - 2] == 0x0D && w[w.len() - 1] == 0x0A }

/// printable text overwrites the cells from the cursor on and advances the cursor
pub open spec fn term_put(t: Term, s: Seq<char>) -> Term {
    Term { cells: |i: int| if t.col <= i < t.col + s.len() { s[i - t.col] } else { (t.cells)(i) }, col: t.col + s.len() }
}
/// CR
pub open spec fn term_cr(t: Term) -> Term { Term { col: 0, ..t } }
/// EL 2: erase the whole line, cursor stays
pub open spec fn term_el2(t: Term) -> Term { Term { cells: blank_cells(), col: t.col } }
/// CUF / CUB by one
pub open spec fn term_cuf(t: Term) -> Term { Term { col: t.col + 1, ..t } }
pub open spec fn term_cub(t: Term) -> Term { Term { col: if t.col > 0 { t.col - 1 } else { 0 }, ..t } }
/// ICH: a blank is inserted at the cursor, the rest of the line moves right
pub open spec fn term_ich(t: Term) -> Term {
    Term { cells: |i: int| if i < t.col { (t.cells)(i) } else if i == t.col { ' ' } else { (t.cells)(i - 1) }, col: t.col }
}
/// DCH: the character at the cursor is deleted, the rest of the line moves left
pub open spec fn term_dch(t: Term) -> Term {
    Term { cells: |i: int| if i < t.col { (t.cells)(i) } else { (t.cells)(i + 1) }, col: t.col }
}

/// effect of bytes the model does not interpret (application output that is not plain text)
pub uninterp spec fn term_other(t: Term, w: Seq<u8>) -> Term;

/// effect of one write call (ECMA-48 section 8.3 for the six controls the library uses; a chunk that ends with CR LF
/// leaves the terminal at the start of an empty line)
pub open spec fn term_w(t: Term, w: Seq<u8>) -> Term {
    if printable_bytes(w) { term_put(t, decode_utf8(w)) }
    else if w == seq_cr() { term_cr(t) }
    else if w == seq_el2() { term_el2(t) }
    else if w == seq_cuf() { term_cuf(t) }
    else if w == seq_cub() { term_cub(t) }
    else if w == seq_ich() { term_ich(t) }
    else if w == seq_dch() { term_dch(t) }
    else if ends_crlf(w) { term_fresh() }
    else { term_other(t, w) }
}

pub open spec fn term_ev(t: Term, e: embedded_io::Ev) -> Term {
    match e { embedded_io::Ev::W(w) => term_w(t, w), embedded_io::Ev::F => t }
}

/// the terminal after the sink events so far (it starts at the beginning of an empty line)
pub open spec fn term_run(evs: Seq<embedded_io::Ev>) -> Term
    decreases evs.len()
{
    if evs.len() == 0 { term_fresh() } else { term_ev(term_run(evs.drop_last()), evs.last()) }
}

pub proof fn lemma_term_push(evs: Seq<embedded_io::Ev>, e: embedded_io::Ev)
    ensures term_run(evs.push(e)) == term_ev(term_run(evs), e)
{
    assert(evs.push(e).drop_last() =~= evs);
}

/// C06: the current line shows exactly prompt + line (every cell beyond is blank), cursor at the editor's cursor
pub open spec fn shows(t: Term, prompt: Seq<char>, line: Seq<char>, cur: int) -> bool {
    &&& t.col == prompt.len() + cur
    &&& forall|i: int| 0 <= i ==> #[trigger] (t.cells)(i) ==
            (if i < prompt.len() { prompt[i] } else if i < prompt.len() + line.len() { line[i - prompt.len()] } else { ' ' })
}

// ---- none of the control strings is printable text -------------------------------------------------------------
pub proof fn lemma_controls_not_printable()
    ensures !printable_bytes(seq_cr()), !printable_bytes(seq_el2()), !printable_bytes(seq_cuf()), !printable_bytes(seq_cub()),
        !printable_bytes(seq_ich()), !printable_bytes(seq_dch()),
        forall|w: Seq<u8>| ends_crlf(w) ==> !printable_bytes(w),
{
    assert(seq_cr()[0] == 0x0D);
    assert(seq_el2()[0] == 0x1B);
    assert(seq_cuf()[0] == 0x1B);
    assert(seq_cub()[0] == 0x1B);
    assert(seq_ich()[0] == 0x1B);
    assert(seq_dch()[0] == 0x1B);
    assert forall|w: Seq<u8>| ends_crlf(w) implies !printable_bytes(w) by {
        assert(w[w.len() - 1] == 0x0A);
    }
}

pub proof fn lemma_term_w_controls(t: Term)
    ensures term_w(t, seq_cr()) == term_cr(t), term_w(t, seq_el2()) == term_el2(t), term_w(t, seq_cuf()) == term_cuf(t),
        term_w(t, seq_cub()) == term_cub(t), term_w(t, seq_ich()) == term_ich(t), term_w(t, seq_dch()) == term_dch(t),
        forall|w: Seq<u8>| ends_crlf(w) ==> #[trigger] term_w(t, w) == term_fresh(),
{
    lemma_controls_not_printable();
    assert(seq_el2() != seq_cr()) by { assert(seq_el2().len() != seq_cr().len()); }
    assert(seq_cuf() != seq_cr()) by { assert(seq_cuf().len() != seq_cr().len()); }
    assert(seq_cub() != seq_cr()) by { assert(seq_cub().len() != seq_cr().len()); }
    assert(seq_ich() != seq_cr()) by { assert(seq_ich().len() != seq_cr().len()); }
    assert(seq_dch() != seq_cr()) by { assert(seq_dch().len() != seq_cr().len()); }
    assert(seq_cuf() != seq_el2()) by { assert(seq_cuf().len() != seq_el2().len()); }
    assert(seq_cub() != seq_el2()) by { assert(seq_cub().len() != seq_el2().len()); }
    assert(seq_ich() != seq_el2()) by { assert(seq_ich().len() != seq_el2().len()); }
    assert(seq_dch() != seq_el2()) by { assert(seq_dch().len() != seq_el2().len()); }
    assert(seq_cub() != seq_cuf()) by { assert(seq_cub()[2] != seq_cuf()[2]); }
    assert(seq_ich() != seq_cuf()) by { assert(seq_ich()[2] != seq_cuf()[2]); }
    assert(seq_dch() != seq_cuf()) by { assert(seq_dch()[2] != seq_cuf()[2]); }
    assert(seq_ich() != seq_cub()) by { assert(seq_ich()[2] != seq_cub()[2]); }
    assert(seq_dch() != seq_cub()) by { assert(seq_dch()[2] != seq_cub()[2]); }
    assert(seq_dch() != seq_ich()) by { assert(seq_dch()[2] != seq_ich()[2]); }
    assert forall|w: Seq<u8>| ends_crlf(w) implies #[trigger] term_w(t, w) == term_fresh() by {
        assert(w[w.len() - 1] == 0x0A);
        if w == seq_cr() { assert(w.len() == 1); }
        if w == seq_el2() { assert(seq_el2()[3] == 0x4B); }
        if w == seq_cuf() { assert(seq_cuf()[2] == 0x43); }
        if w == seq_cub() { assert(seq_cub()[2] == 0x44); }
        if w == seq_ich() { assert(seq_ich()[2] == 0x40); }
        if w == seq_dch() { assert(seq_dch()[2] == 0x50); }
    }
}

// ---- the moves of C06 (pure facts about the model; the code contracts instantiate them) -----------------------------
/// typing at the end of the line
pub proof fn lemma_show_put_end(t: Term, p: Seq<char>, l: Seq<char>, s: Seq<char>)
    requires shows(t, p, l, l.len() as int)
    ensures shows(term_put(t, s), p, l + s, (l + s).len() as int)
{
    let t2 = term_put(t, s);
    assert forall|i: int| 0 <= i implies #[trigger] (t2.cells)(i) ==
        (if i < p.len() { p[i] } else if i < p.len() + (l + s).len() { (l + s)[i - p.len()] } else { ' ' }) by {
        assert((t.cells)(i) == (if i < p.len() { p[i] } else if i < p.len() + l.len() { l[i - p.len()] } else { ' ' }));
    }
}

/// typing inside the line: ICH, then the character
pub proof fn lemma_show_insert(t: Term, p: Seq<char>, l: Seq<char>, c: int, s: Seq<char>)
    requires shows(t, p, l, c), 0 <= c < l.len(), s.len() == 1
    ensures shows(term_put(term_ich(t), s), p, l.subrange(0, c) + s + l.subrange(c, l.len() as int), c + 1)
{
    let l2 = l.subrange(0, c) + s + l.subrange(c, l.len() as int);
    let t2 = term_put(term_ich(t), s);
    assert forall|i: int| 0 <= i implies #[trigger] (t2.cells)(i) ==
        (if i < p.len() { p[i] } else if i < p.len() + l2.len() { l2[i - p.len()] } else { ' ' }) by {
        assert((t.cells)(i) == (if i < p.len() { p[i] } else if i < p.len() + l.len() { l[i - p.len()] } else { ' ' }));
        if i > 0 {
            assert((t.cells)(i - 1) == (if i - 1 < p.len() { p[i - 1] } else if i - 1 < p.len() + l.len() { l[i - 1 - p.len()] } else { ' ' }));
        }
    }
}

/// Backspace: CUB, then DCH
pub proof fn lemma_show_backspace(t: Term, p: Seq<char>, l: Seq<char>, c: int)
    requires shows(t, p, l, c), 0 < c <= l.len()
    ensures shows(term_dch(term_cub(t)), p, l.remove(c - 1), c - 1)
{
    let l2 = l.remove(c - 1);
    let t2 = term_dch(term_cub(t));
    assert forall|i: int| 0 <= i implies #[trigger] (t2.cells)(i) ==
        (if i < p.len() { p[i] } else if i < p.len() + l2.len() { l2[i - p.len()] } else { ' ' }) by {
        assert((t.cells)(i) == (if i < p.len() { p[i] } else if i < p.len() + l.len() { l[i - p.len()] } else { ' ' }));
        assert((t.cells)(i + 1) == (if i + 1 < p.len() { p[i + 1] } else if i + 1 < p.len() + l.len() { l[i + 1 - p.len()] } else { ' ' }));
    }
}

/// redraw: CR, EL 2, prompt, line -- whatever was shown before
pub proof fn lemma_show_redraw(t: Term, p: Seq<char>, l: Seq<char>)
    ensures shows(term_put(term_put(term_el2(term_cr(t)), p), l), p, l, l.len() as int)
{
}

/// prompt and line written on a fresh line
pub proof fn lemma_show_fresh(t: Term, p: Seq<char>, l: Seq<char>)
    requires is_fresh(t)
    ensures shows(term_put(term_put(t, p), l), p, l, l.len() as int)
{
}

/// moving the cursor back k times from the end of the line
pub open spec fn term_cub_n(t: Term, k: int) -> Term
    decreases k
{
    if k <= 0 { t } else { term_cub(term_cub_n(t, k - 1)) }
}

pub proof fn lemma_show_cub_n(t: Term, p: Seq<char>, l: Seq<char>, c: int, k: int)
    requires shows(t, p, l, c), 0 <= k <= c
    ensures shows(term_cub_n(t, k), p, l, c - k)
    decreases k
{
    if k > 0 { lemma_show_cub_n(t, p, l, c, k - 1); }
}

/// Tab: the part of the new line from the old cursor on is written over what was there; what the old line had beyond
/// the new end was blank
pub proof fn lemma_show_complete(t: Term, p: Seq<char>, l: Seq<char>, c: int, l2: Seq<char>)
    requires shows(t, p, l, c), 0 <= c <= l.len(), c <= l2.len(),
        l2.subrange(0, c) == l.subrange(0, c),
        forall|i: int| l2.len() <= i < l.len() ==> l[i] == ' ',
    ensures shows(term_put(t, l2.subrange(c, l2.len() as int)), p, l2, l2.len() as int)
{
    let s = l2.subrange(c, l2.len() as int);
    let t2 = term_put(t, s);
    assert forall|i: int| 0 <= i implies #[trigger] (t2.cells)(i) ==
        (if i < p.len() { p[i] } else if i < p.len() + l2.len() { l2[i - p.len()] } else { ' ' }) by {
        assert((t.cells)(i) == (if i < p.len() { p[i] } else if i < p.len() + l.len() { l[i - p.len()] } else { ' ' }));
        if p.len() <= i < p.len() + c {
            assert(l2[i - p.len()] == l2.subrange(0, c)[i - p.len()]);
            assert(l[i - p.len()] == l.subrange(0, c)[i - p.len()]);
        }
    }
}

/// the line shrank by trailing blanks only and nothing was written (Tab without echo)
pub proof fn lemma_show_shrink(t: Term, p: Seq<char>, l: Seq<char>, c: int, l2: Seq<char>)
    requires shows(t, p, l, c), l2.len() <= l.len(), l2 == l.subrange(0, l2.len() as int),
        forall|i: int| l2.len() <= i < l.len() ==> l[i] == ' ',
    ensures shows(t, p, l2, c)
{
    assert forall|i: int| 0 <= i implies #[trigger] (t.cells)(i) ==
        (if i < p.len() { p[i] } else if i < p.len() + l2.len() { l2[i - p.len()] } else { ' ' }) by {
        assert((t.cells)(i) == (if i < p.len() { p[i] } else if i < p.len() + l.len() { l[i - p.len()] } else { ' ' }));
    }
}
} // verus!
verus! {
pub proof fn lemma_cr_bytes()
    ensures "\r".spec_bytes() == seq_cr()
{
    reveal_strlit("\r");
    let s = "\r"@;
    assert(s =~= seq!['\r']);
    assert(is_ascii_chars(s));
    is_ascii_chars_encode_utf8(s);
    assert(encode_utf8(s) =~= seq_cr());
}
} // verus!
verus! {
/// n blanks encode as n bytes 0x20
pub proof fn lemma_blank_bytes(s: Seq<u8>)
    requires forall|i: int| 0 <= i < s.len() ==> s[i] == 0x20
    ensures valid_utf8(s), decode_utf8(s) == Seq::new(s.len(), |i: int| ' ')
{
    let cs = Seq::new(s.len(), |i: int| ' ');
    assert(is_ascii_chars(cs));
    is_ascii_chars_encode_utf8(cs);
    assert(encode_utf8(cs) =~= s);
    encode_utf8_valid_utf8(cs);
    encode_utf8_decode_utf8(cs);
}

/// Character-level view of a completion (C06): the line up to the request (which reaches at least to the cursor and is
/// followed by blanks only) is kept, a continuation (and maybe one blank) is appended.  In characters: everything up to
/// the cursor is unchanged, and whatever the old line had beyond the new end was blank.
pub proof fn lemma_ac_chars(b: Seq<u8>, c: int, rl: int, x: Seq<u8>, sp: bool)
    requires valid_utf8(b), 0 <= c <= decode_utf8(b).len(), byte_off(decode_utf8(b), c) <= rl <= b.len(),
        is_char_boundary(b, rl), forall|i: int| rl <= i < b.len() ==> b[i] == 0x20, valid_utf8(x),
    ensures ({ let l = decode_utf8(b);
        let nb = b.subrange(0, rl) + x + (if sp { seq![0x20u8] } else { Seq::<u8>::empty() });
        let l2 = decode_utf8(nb);
        &&& valid_utf8(nb)
        &&& c <= l2.len() && l2.subrange(0, c) == l.subrange(0, c)
        &&& forall|i: int| l2.len() <= i < l.len() ==> l[i] == ' ' }),
{
    let l = decode_utf8(b);
    let pre = b.subrange(0, rl);
    let suf = b.subrange(rl, b.len() as int);
    valid_utf8_split(b, rl);
    decode_utf8_split(b, rl);
    let a = decode_utf8(pre);
    let s = decode_utf8(suf);
    assert(l == a + s);
    lemma_blank_bytes(suf);
    decode_utf8_encode_utf8(pre);
    // |a| >= c: otherwise the cursor's byte offset would lie beyond the request
    if a.len() < c {
        let k = c - a.len();
        assert(l.subrange(0, c) =~= a + s.subrange(0, k));
        encode_utf8_concat(a, s.subrange(0, k));
        assert(is_ascii_chars(s.subrange(0, k)));
        is_ascii_chars_encode_utf8(s.subrange(0, k));
        assert(encode_utf8(s.subrange(0, k)).len() == k);
        assert(false);
    }
    let tail = if sp { seq![0x20u8] } else { Seq::<u8>::empty() };
    lemma_blank_bytes(tail);
    let xc = decode_utf8(x);
    let tc = decode_utf8(tail);
    decode_utf8_encode_utf8(x);
    decode_utf8_encode_utf8(tail);
    encode_utf8_concat(a, xc);
    encode_utf8_concat(a + xc, tc);
    let nb = pre + x + tail;
    assert(nb == encode_utf8(a + xc + tc));
    encode_utf8_valid_utf8(a + xc + tc);
    encode_utf8_decode_utf8(a + xc + tc);
    let l2 = decode_utf8(nb);
    assert(l2 == a + xc + tc);
    assert(l2.subrange(0, c) =~= a.subrange(0, c));
    assert(l.subrange(0, c) =~= a.subrange(0, c));
    assert forall|i: int| l2.len() <= i < l.len() implies l[i] == ' ' by {
        assert(l[i] == s[i - a.len()]);
    }
}
} // verus!
verus! {
/// a piece of printable text is printable
pub proof fn lemma_printable_part(a: Seq<char>, t: Seq<char>, b: Seq<char>)
    requires printable_bytes(encode_utf8(a + t + b))
    ensures printable_bytes(encode_utf8(t))
{
    encode_utf8_concat(a, t);
    encode_utf8_concat(a + t, b);
    encode_utf8_valid_utf8(t);
    let w = encode_utf8(a + t + b);
    let ea = encode_utf8(a);
    let et = encode_utf8(t);
    assert forall|i: int| 0 <= i < et.len() implies #[trigger] et[i] >= 0x20 && et[i] != 0x7F by {
        assert(w[ea.len() + i] == et[i]);
    }
}
} // verus!
