// Line editor: byte-level facts behind the ideal editor over Unicode scalar values (C05).
verus! {
/// cutting well-formed text at the byte offset of the c-th char gives two halves that encode the two halves
pub proof fn lemma_split_at_char(b: Seq<u8>, c: int)
    requires valid_utf8(b), 0 <= c <= decode_utf8(b).len()
    ensures ({ let l = decode_utf8(b); let off = byte_off(l, c);
        &&& 0 <= off <= b.len()
        &&& (c == l.len() <==> off == b.len())
        &&& b.subrange(0, off) == encode_utf8(l.subrange(0, c))
        &&& b.subrange(off, b.len() as int) == encode_utf8(l.subrange(c, l.len() as int))
        &&& is_char_boundary(b, off) })
{
    let l = decode_utf8(b);
    decode_utf8_encode_utf8(b);
    assert(l =~= l.subrange(0, c) + l.subrange(c, l.len() as int));
    encode_utf8_concat(l.subrange(0, c), l.subrange(c, l.len() as int));
    let e1 = encode_utf8(l.subrange(0, c)); let e2 = encode_utf8(l.subrange(c, l.len() as int));
    assert(b == e1 + e2);
    assert(b.subrange(0, e1.len() as int) =~= e1);
    assert(b.subrange(e1.len() as int, b.len() as int) =~= e2);
    if c == l.len() { assert(l.subrange(0, c) =~= l); }
    if c < l.len() {
        encode_utf8_decode_utf8(l.subrange(c, l.len() as int));
        assert(e2.len() > 0) by { if e2.len() == 0 { assert(decode_utf8(e2).len() == 0); } }
    }
    // off is a boundary: the prefix is itself well-formed
    encode_utf8_valid_utf8(l.subrange(0, c));
    encode_utf8_valid_utf8(l.subrange(c, l.len() as int));
    lemma_valid_prefix_boundary(b, e1.len() as int);
}

/// a split of well-formed text into two well-formed parts is at a character boundary
pub proof fn lemma_valid_prefix_boundary(b: Seq<u8>, i: int)
    requires valid_utf8(b), 0 <= i <= b.len(), valid_utf8(b.subrange(0, i)), valid_utf8(b.subrange(i, b.len() as int))
    ensures is_char_boundary(b, i)
{
    if i == b.len() {
        is_char_boundary_start_end_of_seq(b);
    } else if i == 0 {
    } else {
        let t = b.subrange(i, b.len() as int);
        assert(valid_first_scalar(t));
        assert(t[0] == b[i]);
        assert(!is_continuation_byte(t[0]));
        is_char_boundary_iff_not_is_continuation_byte(b, i);
    }
}

pub proof fn lemma_insert_valid(b: Seq<u8>, c: int, t: Seq<u8>)
    requires valid_utf8(b), valid_utf8(t), 0 <= c <= decode_utf8(b).len()
    ensures ({ let l = decode_utf8(b); let off = byte_off(l, c);
        let nb = b.subrange(0, off) + t + b.subrange(off, b.len() as int);
        &&& valid_utf8(nb)
        &&& decode_utf8(nb) == l.subrange(0, c) + decode_utf8(t) + l.subrange(c, l.len() as int) })
{
    let l = decode_utf8(b); let off = byte_off(l, c);
    lemma_split_at_char(b, c);
    let a1 = l.subrange(0, c); let a2 = l.subrange(c, l.len() as int); let tc = decode_utf8(t);
    decode_utf8_encode_utf8(t);
    encode_utf8_concat(a1, tc);
    encode_utf8_concat(a1 + tc, a2);
    let nb = b.subrange(0, off) + t + b.subrange(off, b.len() as int);
    assert(nb == encode_utf8(a1 + tc + a2));
    encode_utf8_valid_utf8(a1 + tc + a2);
    encode_utf8_decode_utf8(a1 + tc + a2);
}

/// byte offsets of consecutive characters
pub proof fn lemma_byte_off_step(l: Seq<char>, c: int)
    requires 0 <= c < l.len()
    ensures byte_off(l, c + 1) == byte_off(l, c) + byte_off(l.subrange(c, l.len() as int), 1),
        byte_off(l.subrange(c, l.len() as int), 1) >= 1,
{
    let a = l.subrange(0, c);
    let one = l.subrange(c, l.len() as int).subrange(0, 1);
    assert(l.subrange(0, c + 1) =~= a + one);
    encode_utf8_concat(a, one);
    encode_utf8_decode_utf8(one);
    if encode_utf8(one).len() == 0 { assert(decode_utf8(encode_utf8(one)).len() == 0); }
}

pub proof fn lemma_remove_valid(b: Seq<u8>, c: int)
    requires valid_utf8(b), 0 <= c < decode_utf8(b).len()
    ensures ({ let l = decode_utf8(b); let off = byte_off(l, c); let off2 = byte_off(l, c + 1);
        let nb = b.subrange(0, off) + b.subrange(off2, b.len() as int);
        &&& 0 <= off < off2 <= b.len()
        &&& valid_utf8(nb)
        &&& decode_utf8(nb) == l.remove(c) })
{
    let l = decode_utf8(b);
    lemma_split_at_char(b, c);
    lemma_split_at_char(b, c + 1);
    lemma_byte_off_step(l, c);
    let a1 = l.subrange(0, c); let a2 = l.subrange(c + 1, l.len() as int);
    encode_utf8_concat(a1, a2);
    assert(a1 + a2 =~= l.remove(c));
    encode_utf8_valid_utf8(a1 + a2);
    encode_utf8_decode_utf8(a1 + a2);
}

/// truncating at a character offset
pub proof fn lemma_truncate_valid(b: Seq<u8>, c: int)
    requires valid_utf8(b), 0 <= c <= decode_utf8(b).len()
    ensures valid_utf8(b.subrange(0, byte_off(decode_utf8(b), c))),
        decode_utf8(b.subrange(0, byte_off(decode_utf8(b), c))) == decode_utf8(b).subrange(0, c),
{
    lemma_split_at_char(b, c);
    let l = decode_utf8(b);
    encode_utf8_valid_utf8(l.subrange(0, c));
    encode_utf8_decode_utf8(l.subrange(0, c));
}
} // verus!
