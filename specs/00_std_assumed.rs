// Assumed specifications of std/core functions the library calls (each `requires` is the documented
// safety / panic condition, so it becomes a proof obligation at every call site).  TRUSTED.
verus! {
pub use vstd::utf8::*;
pub use vstd::string::StringSliceAdditionalSpecFns;

pub assume_specification [core::str::from_utf8_unchecked] (b: &[u8]) -> (r: &str)
    requires valid_utf8(b@),
    ensures r@ == decode_utf8(b@), r.spec_bytes() == b@;

// position shims: bodies are the original std iterator chains, contracts state first-match semantics
#[verifier::external_body]
pub fn position_ne(s: &[u8], v: u8) -> (r: Option<usize>)
    ensures
        r is Some ==> r.unwrap() < s@.len() && s@[r.unwrap() as int] != v
            && (forall|i: int| 0 <= i < r.unwrap() ==> s@[i] == v),
        r is None ==> (forall|i: int| 0 <= i < s@.len() ==> s@[i] == v),
{
    s.iter().position(|b| *b != v)
}

#[verifier::external_body]
pub fn position_eq(s: &[u8], v: u8) -> (r: Option<usize>)
    ensures
        r is Some ==> r.unwrap() < s@.len() && s@[r.unwrap() as int] == v
            && (forall|i: int| 0 <= i < r.unwrap() ==> s@[i] != v),
        r is None ==> (forall|i: int| 0 <= i < s@.len() ==> s@[i] != v),
{
    s.iter().position(|b| *b == v)
}

/// position counted from the end: r = number of trailing elements skipped before the first match
#[verifier::external_body]
pub fn rposition_eq(s: &[u8], v: u8) -> (r: Option<usize>)
    ensures
        r is Some ==> r.unwrap() < s@.len() && s@[s@.len() - 1 - r.unwrap()] == v
            && (forall|i: int| s@.len() - r.unwrap() <= i < s@.len() ==> s@[i] != v),
        r is None ==> (forall|i: int| 0 <= i < s@.len() ==> s@[i] != v),
{
    s.iter().rev().position(|b| *b == v)
}

#[verifier::external_body]
pub fn rposition_ne(s: &[u8], v: u8) -> (r: Option<usize>)
    ensures
        r is Some ==> r.unwrap() < s@.len() && s@[s@.len() - 1 - r.unwrap()] != v
            && (forall|i: int| s@.len() - r.unwrap() <= i < s@.len() ==> s@[i] == v),
        r is None ==> (forall|i: int| 0 <= i < s@.len() ==> s@[i] == v),
{
    s.iter().rev().position(|b| *b != v)
}
} // verus!
