// Assumed specifications of std/core functions the library calls (each `requires` is the documented
// safety / panic condition, so it becomes a proof obligation at every call site).  TRUSTED.
verus! {
pub use vstd::utf8::*;
pub use vstd::string::StringSliceAdditionalSpecFns;
pub use vstd::slice::SliceIndexSpec;

pub assume_specification [core::str::from_utf8_unchecked] (b: &[u8]) -> (r: &str)
    requires valid_utf8(b@),
    ensures r@ == decode_utf8(b@), r.spec_bytes() == b@;

pub assume_specification [<char>::from_u32_unchecked] (i: u32) -> (r: char)
    requires is_scalar(i),
    ensures r as u32 == i;

pub assume_specification<I> [<str>::get::<I>] (s: &str, i: I) -> (r: Option<&<I as core::slice::SliceIndex<str>>::Output>)
    where I: core::slice::SliceIndex<str>
    ensures
        i.in_bounds(s) ==> r is Some && i.index_postcondition(s, r.unwrap()),
        !i.in_bounds(s) ==> r is None;

pub assume_specification<I> [<str>::get_unchecked::<I>] (s: &str, i: I) -> (r: &<I as core::slice::SliceIndex<str>>::Output)
    where I: core::slice::SliceIndex<str>
    requires i.in_bounds(s),
    ensures i.index_postcondition(s, r);

pub assume_specification<T, I> [<[T]>::get_unchecked::<I>] (s: &[T], i: I) -> (r: &<I as core::slice::SliceIndex<[T]>>::Output)
    where I: core::slice::SliceIndex<[T]>
    requires i.in_bounds(s),
    ensures i.index_postcondition(s, r);

pub assume_specification [<str>::as_bytes_mut] (s: &mut str) -> (r: &mut [u8])
    ensures r@ == old(s).spec_bytes(), final(s).spec_bytes() == final(r)@;

pub assume_specification<T> [Option::<T>::unwrap_unchecked] (o: Option<T>) -> (r: T)
    requires o is Some,
    ensures r == o.unwrap();

/// every `str` is a byte slice, and no Rust slice is longer than isize::MAX bytes (language guarantee)
#[verifier::external_body]
pub broadcast proof fn axiom_str_len_bound(s: &str)
    ensures #[trigger] s.spec_bytes().len() <= isize::MAX, s@.len() <= s.spec_bytes().len(),
{
}

pub assume_specification<T, I> [<[T]>::get_unchecked_mut::<I>] (s: &mut [T], i: I) -> (r: &mut <I as core::slice::SliceIndex<[T]>>::Output)
    where I: core::slice::SliceIndex<[T]>
    requires i.in_bounds(old(s)),
    ensures i.index_mut_postcondition(old(s), final(s), r, final(r));

pub assume_specification [core::str::from_utf8_unchecked_mut] (b: &mut [u8]) -> (r: &mut str)
    requires valid_utf8(old(b)@),
    ensures r.spec_bytes() == old(b)@, final(b)@ == final(r).spec_bytes();

pub assume_specification<T: Clone> [<[T]>::fill] (s: &mut [T], v: T)
    ensures final(s)@.len() == old(s)@.len(), forall|i: int| 0 <= i < final(s)@.len() ==> final(s)@[i] == v;

pub assume_specification<T> [Option::<T>::or] (a: Option<T>, b: Option<T>) -> (r: Option<T>)
    ensures r == (if a is Some { a } else { b });

/// no Rust slice is longer than isize::MAX bytes (language guarantee; vstd only states usize::MAX)
#[verifier::external_body]
pub broadcast proof fn axiom_slice_len_bound(s: &[u8])
    ensures #[trigger] s@.len() <= isize::MAX,
{
}

/// (proved) the character view of a `str` is the decoding of its bytes, and its bytes are well-formed
pub broadcast proof fn lemma_str_view_bytes(s: &str)
    ensures decode_utf8(#[trigger] s.spec_bytes()) == s@, valid_utf8(s.spec_bytes()),
{
    encode_utf8_decode_utf8(s@);
    encode_utf8_valid_utf8(s@);
}

// position shims: bodies are the original std iterator chains, contracts state first-match semantics
#[verifier::external_body]
pub fn position_ne(s: &[u8], v: u8) -> (r: Option<usize>)
    ensures
        r is Some ==> r.unwrap() < s@.len() && s@[r.unwrap() as int] != v
            && (forall|i: int| 0 <= i < r.unwrap() ==> s@[i] == v),
        r is None ==> (forall|i: int| 0 <= i < s@.len() ==> s@[i] == v),
{
    s.iter().position(|b| *b != v)
}

#[verifier::external_body]
pub fn position_eq(s: &[u8], v: u8) -> (r: Option<usize>)
    ensures
        r is Some ==> r.unwrap() < s@.len() && s@[r.unwrap() as int] == v
            && (forall|i: int| 0 <= i < r.unwrap() ==> s@[i] != v),
        r is None ==> (forall|i: int| 0 <= i < s@.len() ==> s@[i] != v),
{
    s.iter().position(|b| *b == v)
}

#[verifier::external_body]
pub fn contains_byte(s: &[u8], v: u8) -> (r: bool)
    ensures r == (exists|i: int| 0 <= i < s@.len() && s@[i] == v),
{
    s.contains(&v)
}

/// `hay.starts_with(needle)` for &str needles
#[verifier::external_body]
pub fn str_starts_with(hay: &str, needle: &str) -> (r: bool)
    ensures r == (needle.spec_bytes().len() <= hay.spec_bytes().len()
        && hay.spec_bytes().subrange(0, needle.spec_bytes().len() as int) == needle.spec_bytes()),
{
    hay.starts_with(needle)
}

/// position counted from the end: r = number of trailing elements skipped before the first match
#[verifier::external_body]
pub fn rposition_eq(s: &[u8], v: u8) -> (r: Option<usize>)
    ensures
        r is Some ==> r.unwrap() < s@.len() && s@[s@.len() - 1 - r.unwrap()] == v
            && (forall|i: int| s@.len() - r.unwrap() <= i < s@.len() ==> s@[i] != v),
        r is None ==> (forall|i: int| 0 <= i < s@.len() ==> s@[i] != v),
{
    s.iter().rev().position(|b| *b == v)
}

#[verifier::external_body]
pub fn rposition_ne(s: &[u8], v: u8) -> (r: Option<usize>)
    ensures
        r is Some ==> r.unwrap() < s@.len() && s@[s@.len() - 1 - r.unwrap()] != v
            && (forall|i: int| s@.len() - r.unwrap() <= i < s@.len() ==> s@[i] == v),
        r is None ==> (forall|i: int| 0 <= i < s@.len() ==> s@[i] == v),
{
    s.iter().rev().position(|b| *b != v)
}
} // verus!
