// Tab completion, library half (C11): how candidates are merged.
verus! {
/// p is the length of the longest common prefix of a and b that ends on a character boundary of a
pub open spec fn cpl_pred(a: Seq<u8>, b: Seq<u8>, p: int) -> bool {
    &&& 0 <= p <= a.len() && p <= b.len()
    &&& a.subrange(0, p) == b.subrange(0, p)
    &&& is_char_boundary(a, p)
    &&& forall|q: int| p < q <= a.len() && q <= b.len() && #[trigger] is_char_boundary(a, q) ==> a.subrange(0, q) != b.subrange(0, q)
}

/// longest common prefix (in bytes) of two well-formed texts, cut at a character boundary
pub open spec fn cpl(a: Seq<u8>, b: Seq<u8>) -> int { choose|p: int| cpl_pred(a, b, p) }

pub proof fn lemma_cpl_unique(a: Seq<u8>, b: Seq<u8>, p: int)
    requires cpl_pred(a, b, p)
    ensures cpl(a, b) == p
{
    let c = cpl(a, b);
    assert(cpl_pred(a, b, c));
    if c < p { assert(is_char_boundary(a, p)); }
    if p < c { assert(is_char_boundary(a, c)); }
}

/// state of a completion: what has been merged so far (None: nothing merged) and whether more input is needed
pub struct AcState { pub auto: Option<Seq<u8>>, pub partial: bool }

/// p is the length of the longest prefix of a that ends on a character boundary and fits into `room` bytes
pub open spec fn fit_pred(a: Seq<u8>, room: int, p: int) -> bool {
    &&& 0 <= p <= a.len() && p <= room
    &&& is_char_boundary(a, p)
    &&& forall|q: int| p < q <= a.len() && q <= room ==> !#[trigger] is_char_boundary(a, q)
}
pub open spec fn fit_len(a: Seq<u8>, room: int) -> int { choose|p: int| fit_pred(a, room, p) }
pub proof fn lemma_fit_unique(a: Seq<u8>, room: int, p: int)
    requires fit_pred(a, room, p)
    ensures fit_len(a, room) == p
{
    let c = fit_len(a, room);
    assert(fit_pred(a, room, c));
    if c < p { assert(is_char_boundary(a, p)); }
    if p < c { assert(is_char_boundary(a, c)); }
}

/// one merge of a candidate continuation into a completion buffer of `room` bytes (as implemented): the first
/// candidate is kept as far as it fits, every further one cuts what is there down to the common prefix
pub open spec fn merge_step(room: int, s: AcState, cand: Seq<u8>) -> AcState {
    if cand.len() == 0 || room == 0 {
        AcState { auto: Some(Seq::empty()), partial: s.partial || s.auto is Some || (room == 0 && cand.len() > 0) }
    } else {
        let len = match s.auto { Some(cur) => cpl(cand, cur), None => fit_len(cand, room) };
        AcState { auto: Some(cand.subrange(0, len)), partial: s.partial || len < cand.len() || s.auto is Some }
    }
}
} // verus!
verus! {
/// number of trailing spaces of s (all of it when s consists of spaces only)
pub open spec fn trailing_spaces(s: Seq<u8>) -> int
    decreases s.len()
{
    if s.len() > 0 && s.last() == 0x20 { 1 + trailing_spaces(s.drop_last()) } else { 0 }
}

pub proof fn lemma_trailing_spaces(s: Seq<u8>, n: int)
    requires 0 <= n <= s.len(), forall|i: int| s.len() - n <= i < s.len() ==> s[i] == 0x20,
        n < s.len() ==> s[s.len() - 1 - n] != 0x20,
    ensures trailing_spaces(s) == n
    decreases n
{
    if n > 0 {
        let d = s.drop_last();
        assert forall|i: int| d.len() - (n - 1) <= i < d.len() implies d[i] == 0x20 by { assert(d[i] == s[i]); }
        if n - 1 < d.len() { assert(d[d.len() - 1 - (n - 1)] == s[s.len() - 1 - n]); }
        lemma_trailing_spaces(d, n - 1);
    }
}

/// length of the completion request: the line without the blanks between the cursor and the end of the line
/// (`off` is the byte offset of the cursor, None when the cursor is at the end)
pub open spec fn ac_request_len(line: Seq<u8>, off: Option<int>) -> int {
    match off {
        Some(o) => line.len() - trailing_spaces(line.subrange(o, line.len() as int)),
        None => line.len() as int,
    }
}

/// the word completion is attempted for (None: empty line, or an argument has been started)
pub open spec fn ac_word(req: Seq<u8>) -> Option<Seq<u8>> {
    let w = trim_start_spec(req);
    if w.len() > 0 && !w.contains(0x20u8) { Some(w) } else { None }
}

/// the line after a completion attempt that produced state st in a command buffer of `cap` bytes
pub open spec fn ac_apply(line: Seq<u8>, req_len: int, st: AcState, cap: int) -> Seq<u8> {
    match st.auto {
        Some(x) => {
            let base = line.subrange(0, req_len) + x;
            if !st.partial && base.len() < cap { base.push(0x20u8) } else { base }
        },
        None => line,
    }
}
} // verus!
verus! {
pub open spec fn is_prefix_of(a: Seq<u8>, c: Seq<u8>) -> bool { a.len() <= c.len() && c.subrange(0, a.len() as int) == a }

/// Meaning of a completion state w.r.t. the candidates merged so far (C11): every merged candidate is accounted
/// for, the merged continuation is common to every candidate, and the completion is only called complete
/// (not partial, which lets the editor append a space) when exactly one candidate was merged and it is there in full.
pub open spec fn ac_sem(st: AcState, cands: Seq<Seq<u8>>) -> bool {
    &&& (st.auto is None) == (cands.len() == 0)
    &&& st.auto matches Some(a) ==> forall|i: int| 0 <= i < cands.len() ==> is_prefix_of(a, #[trigger] cands[i])
    &&& !st.partial ==> (cands.len() == 0 && st.auto is None) || (cands.len() == 1 && st.auto == Some(cands[0]))
}

/// ... and conversely (as long as nobody called mark_partial): a single candidate that is there in full is complete
pub open spec fn ac_exact(st: AcState, cands: Seq<Seq<u8>>) -> bool {
    &&& cands.len() == 0 ==> !st.partial
    &&& cands.len() == 1 && st.auto == Some(cands[0]) ==> !st.partial
}

/// longest common continuation of a non-empty candidate list: fold of cpl
pub open spec fn lcc(cands: Seq<Seq<u8>>) -> Seq<u8>
    decreases cands.len()
{
    if cands.len() == 0 { Seq::empty() }
    else if cands.len() == 1 { cands[0] }
    else { cands.last().subrange(0, cpl(cands.last(), lcc(cands.drop_last()))) }
}
} // verus!
verus! {
/// every candidate would fit into the free space
pub open spec fn all_fit(cands: Seq<Seq<u8>>, room: int) -> bool {
    forall|i: int| 0 <= i < cands.len() ==> (#[trigger] cands[i]).len() <= room
}

/// as long as every candidate fits, what is merged is exactly the longest common continuation of the candidates
pub open spec fn ac_lcc(st: AcState, cands: Seq<Seq<u8>>, room: int) -> bool {
    all_fit(cands, room) && room > 0 ==>
        (if cands.len() == 0 { st.auto is None } else { st.auto == Some(lcc(cands)) })
}

/// the three together: what C11 says about a completion state given the names that matched
pub open spec fn ac_inv(st: AcState, cands: Seq<Seq<u8>>, room: int) -> bool {
    ac_sem(st, cands) && ac_exact(st, cands) && ac_lcc(st, cands, room)
}

/// continuations of the names that start with the word w, in order
pub open spec fn conts(names: Seq<Seq<u8>>, w: Seq<u8>) -> Seq<Seq<u8>>
    decreases names.len()
{
    if names.len() == 0 { Seq::empty() }
    else {
        let r = conts(names.drop_last(), w);
        let n = names.last();
        if is_prefix_of(w, n) { r.push(n.subrange(w.len() as int, n.len() as int)) } else { r }
    }
}

pub proof fn lemma_conts_concat(a: Seq<Seq<u8>>, b: Seq<Seq<u8>>, w: Seq<u8>)
    ensures conts(a + b, w) == conts(a, w) + conts(b, w)
    decreases b.len()
{
    if b.len() == 0 {
        assert(a + b =~= a);
        assert(conts(a, w) + conts(b, w) =~= conts(a, w));
    } else {
        assert((a + b).drop_last() =~= a + b.drop_last());
        assert((a + b).last() == b.last());
        lemma_conts_concat(a, b.drop_last(), w);
        let n = b.last();
        if is_prefix_of(w, n) {
            assert(conts(a, w) + conts(b.drop_last(), w).push(n.subrange(w.len() as int, n.len() as int))
                =~= (conts(a, w) + conts(b.drop_last(), w)).push(n.subrange(w.len() as int, n.len() as int)));
        }
    }
}

pub proof fn lemma_conts_one(n: Seq<u8>, w: Seq<u8>)
    ensures conts(seq![n], w) == (if is_prefix_of(w, n) { seq![n.subrange(w.len() as int, n.len() as int)] } else { Seq::<Seq<u8>>::empty() })
{
    let one = seq![n];
    assert(one.drop_last() =~= Seq::<Seq<u8>>::empty());
    assert(one.last() == n);
    assert(conts(one.drop_last(), w) =~= Seq::<Seq<u8>>::empty());
    if is_prefix_of(w, n) {
        let c = n.subrange(w.len() as int, n.len() as int);
        assert(Seq::<Seq<u8>>::empty().push(c) =~= seq![c]);
    }
}

/// the names of an arbitrary `#[derive(Command)]` declaration: the derive template is verified for this
/// uninterpreted list, i.e. for every list of command names
pub uninterp spec fn derived_names() -> Seq<Seq<u8>>;

/// stands for `&[#(#command_names),*]` in the derive template (rule T4): some slice of strings
#[verifier::external_body]
pub fn derived_command_names() -> (r: &'static [&'static str])
    ensures r@.len() == derived_names().len(),
        forall|i: int| 0 <= i < r@.len() ==> (#[trigger] r@[i]).spec_bytes() == derived_names()[i],
{
    unimplemented!()
}

/// stands for `#command_count` in the derive(Command) help template (rule T7): some number
#[verifier::external_body]
pub fn derived_command_count() -> (r: usize)
{
    unimplemented!()
}
} // verus!
