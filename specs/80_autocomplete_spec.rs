// Tab completion, library half (C11): how candidates are merged.
verus! {
/// p is the length of the longest common prefix of a and b that ends on a character boundary of a
pub open spec fn cpl_pred(a: Seq<u8>, b: Seq<u8>, p: int) -> bool {
    &&& 0 <= p <= a.len() && p <= b.len()
    &&& a.subrange(0, p) == b.subrange(0, p)
    &&& is_char_boundary(a, p)
    &&& forall|q: int| p < q <= a.len() && q <= b.len() && #[trigger] is_char_boundary(a, q) ==> a.subrange(0, q) != b.subrange(0, q)
}

/// longest common prefix (in bytes) of two well-formed texts, cut at a character boundary
pub open spec fn cpl(a: Seq<u8>, b: Seq<u8>) -> int { choose|p: int| cpl_pred(a, b, p) }

pub proof fn lemma_cpl_unique(a: Seq<u8>, b: Seq<u8>, p: int)
    requires cpl_pred(a, b, p)
    ensures cpl(a, b) == p
{
    let c = cpl(a, b);
    assert(cpl_pred(a, b, c));
    if c < p { assert(is_char_boundary(a, p)); }
    if p < c { assert(is_char_boundary(a, c)); }
}

/// state of a completion: what has been merged so far (None: nothing merged) and whether more input is needed
pub struct AcState { pub auto: Option<Seq<u8>>, pub partial: bool }

/// one merge of a candidate continuation into a completion buffer of `room` bytes (as implemented)
pub open spec fn merge_step(room: int, s: AcState, cand: Seq<u8>) -> AcState {
    if cand.len() == 0 || room == 0 {
        AcState { auto: Some(Seq::empty()), partial: s.partial || s.auto is Some || (room == 0 && cand.len() > 0) }
    } else {
        let len = match s.auto { Some(cur) => cpl(cand, cur), None => cand.len() as int };
        if len > room { s }
        else { AcState { auto: Some(cand.subrange(0, len)), partial: s.partial || len < cand.len() || s.auto is Some } }
    }
}
} // verus!
verus! {
/// number of trailing spaces of s (all of it when s consists of spaces only)
pub open spec fn trailing_spaces(s: Seq<u8>) -> int
    decreases s.len()
{
    if s.len() > 0 && s.last() == 0x20 { 1 + trailing_spaces(s.drop_last()) } else { 0 }
}

pub proof fn lemma_trailing_spaces(s: Seq<u8>, n: int)
    requires 0 <= n <= s.len(), forall|i: int| s.len() - n <= i < s.len() ==> s[i] == 0x20,
        n < s.len() ==> s[s.len() - 1 - n] != 0x20,
    ensures trailing_spaces(s) == n
    decreases n
{
    if n > 0 {
        let d = s.drop_last();
        assert forall|i: int| d.len() - (n - 1) <= i < d.len() implies d[i] == 0x20 by { assert(d[i] == s[i]); }
        if n - 1 < d.len() { assert(d[d.len() - 1 - (n - 1)] == s[s.len() - 1 - n]); }
        lemma_trailing_spaces(d, n - 1);
    }
}

/// length of the completion request: the line without the blanks between the cursor and the end of the line
/// (`off` is the byte offset of the cursor, None when the cursor is at the end)
pub open spec fn ac_request_len(line: Seq<u8>, off: Option<int>) -> int {
    match off {
        Some(o) => line.len() - trailing_spaces(line.subrange(o, line.len() as int)),
        None => line.len() as int,
    }
}

/// the word completion is attempted for (None: empty line, or an argument has been started)
pub open spec fn ac_word(req: Seq<u8>) -> Option<Seq<u8>> {
    let w = trim_start_spec(req);
    if w.len() > 0 && !w.contains(0x20u8) { Some(w) } else { None }
}

/// the line after a completion attempt that produced state st in a command buffer of `cap` bytes
pub open spec fn ac_apply(line: Seq<u8>, req_len: int, st: AcState, cap: int) -> Seq<u8> {
    match st.auto {
        Some(x) => {
            let base = line.subrange(0, req_len) + x;
            if !st.partial && base.len() < cap { base.push(0x20u8) } else { base }
        },
        None => line,
    }
}
} // verus!
