// Argument classification: specification written from the statement of C08.
verus! {
pub enum ArgItem { DoubleDash, Long(Seq<u8>), Short(char), Value(Seq<u8>) }

pub open spec fn shorts(cs: Seq<char>) -> Seq<ArgItem> {
    Seq::new(cs.len(), |i: int| ArgItem::Short(cs[i]))
}

/// items of one token while options are still recognised
pub open spec fn classify_token(t: Seq<u8>) -> Seq<ArgItem> {
    if t.len() > 1 && t[0] == 0x2D {
        if t[1] == 0x2D {
            if t.len() == 2 { seq![ArgItem::DoubleDash] } else { seq![ArgItem::Long(t.subrange(2, t.len() as int))] }
        } else {
            shorts(decode_utf8(t.subrange(1, t.len() as int)))
        }
    } else {
        seq![ArgItem::Value(t)]
    }
}

pub open spec fn is_double_dash(t: Seq<u8>) -> bool { t.len() == 2 && t[0] == 0x2D && t[1] == 0x2D }

/// items of a token list, left to right; after `--` every token is a value
pub open spec fn classify(tokens: Seq<Seq<u8>>, values_only: bool) -> Seq<ArgItem>
    decreases tokens.len()
{
    if tokens.len() == 0 { Seq::empty() }
    else if values_only { seq![ArgItem::Value(tokens[0])] + classify(tokens.drop_first(), true) }
    else { classify_token(tokens[0]) + classify(tokens.drop_first(), is_double_dash(tokens[0])) }
}

pub proof fn lemma_shorts_pop(cs: Seq<char>)
    requires cs.len() > 0
    ensures shorts(cs) == seq![ArgItem::Short(cs[0])] + shorts(cs.drop_first())
{
    assert(shorts(cs) =~= seq![ArgItem::Short(cs[0])] + shorts(cs.drop_first()));
}

/// text of an item list of one token, for the reconstruction property
pub open spec fn render_token_items(items: Seq<ArgItem>) -> Seq<u8> {
    if items.len() == 0 { Seq::empty() } else {
        match items[0] {
            ArgItem::DoubleDash => seq![0x2Du8, 0x2Du8],
            ArgItem::Long(n) => seq![0x2Du8, 0x2Du8] + n,
            ArgItem::Value(v) => v,
            ArgItem::Short(_) => seq![0x2Du8] + encode_utf8(Seq::new(items.len(), |i: int| match items[i] { ArgItem::Short(c) => c, _ => ' ' })),
        }
    }
}

/// nothing lost, nothing invented: the items of a (well-formed) token spell the token
pub proof fn lemma_classify_token_roundtrip(t: Seq<u8>)
    requires valid_utf8(t)
    ensures render_token_items(classify_token(t)) == t
{
    if t.len() > 1 && t[0] == 0x2D {
        if t[1] == 0x2D {
            if t.len() == 2 {
                assert(t =~= seq![0x2Du8, 0x2Du8]);
            } else {
                assert(seq![0x2Du8, 0x2Du8] + t.subrange(2, t.len() as int) =~= t);
            }
        } else {
            lemma_ascii_boundaries(t, 0);
            valid_utf8_split(t, 1);
            let rest = t.subrange(1, t.len() as int);
            let cs = decode_utf8(rest);
            assert(rest.len() > 0);
            assert(cs.len() > 0);
            let items = shorts(cs);
            assert(Seq::new(items.len(), |i: int| match items[i] { ArgItem::Short(c) => c, _ => ' ' }) =~= cs);
            decode_utf8_encode_utf8(rest);
            assert(seq![0x2Du8] + rest =~= t);
        }
    }
}
} // verus!
