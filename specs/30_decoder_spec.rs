// Input decoder: abstract state and step function written from the statement of C04.
verus! {
pub enum KeyEv { Char(Seq<u8>), Backspace, Tab, Enter, Up, Down, Right, Left }

pub struct DecState {
    /// inside a CSI sequence (after ESC [ , before the final byte)
    pub csi: bool,
    /// previous byte was ESC (outside a CSI sequence)
    pub prev_esc: bool,
    /// a terminator was just turned into Enter; its partner (the other one of CR/LF) would be consumed silently
    pub pend: Option<u8>,
    /// octets of the scalar in progress
    pub acc: Seq<u8>,
}

pub open spec fn dec_init() -> DecState {
    DecState { csi: false, prev_esc: false, pend: None, acc: Seq::empty() }
}

pub open spec fn csi_final(b: u8) -> Option<KeyEv> {
    if b == 0x41 { Some(KeyEv::Up) } else if b == 0x42 { Some(KeyEv::Down) }
    else if b == 0x43 { Some(KeyEv::Right) } else if b == 0x44 { Some(KeyEv::Left) } else { None }
}

pub open spec fn dec_idle(acc: Seq<u8>) -> DecState {
    DecState { csi: false, prev_esc: false, pend: None, acc }
}

pub open spec fn dec_step(s: DecState, b: u8) -> (DecState, Option<KeyEv>) {
    if s.csi {
        if 0x40 <= b <= 0x7E { (dec_idle(s.acc), csi_final(b)) }
        else { (DecState { csi: true, prev_esc: false, pend: None, acc: s.acc }, None) }
    } else if s.prev_esc && b == 0x5B {
        (DecState { csi: true, prev_esc: false, pend: None, acc: s.acc }, None)
    } else if b == 0x08 {
        (dec_idle(s.acc), Some(KeyEv::Backspace))
    } else if b == 0x09 {
        (dec_idle(s.acc), Some(KeyEv::Tab))
    } else if b == 0x0D {
        if s.pend == Some(0x0Au8) { (dec_idle(s.acc), None) }
        else { (DecState { csi: false, prev_esc: false, pend: Some(0x0Du8), acc: s.acc }, Some(KeyEv::Enter)) }
    } else if b == 0x0A {
        if s.pend == Some(0x0Du8) { (dec_idle(s.acc), None) }
        else { (DecState { csi: false, prev_esc: false, pend: Some(0x0Au8), acc: s.acc }, Some(KeyEv::Enter)) }
    } else if b >= 0x20 {
        let (p, o) = acc_step(s.acc, b);
        (dec_idle(p), match o { Some(bytes) => Some(KeyEv::Char(bytes)), None => None })
    } else {
        (DecState { csi: false, prev_esc: b == 0x1B, pend: None, acc: s.acc }, None)
    }
}

/// input covered by C04: any byte inside a CSI sequence, any C0 control, and printable bytes (DEL aside) that
/// continue well-formed UTF-8
pub open spec fn dec_good(s: DecState, b: u8) -> bool {
    s.csi || b < 0x20 || (b != 0x7F && good_step(s.acc, b))
}

/// run the decoder over a byte string, collecting events
pub open spec fn dec_run(s: DecState, bytes: Seq<u8>) -> (DecState, Seq<KeyEv>)
    decreases bytes.len()
{
    if bytes.len() == 0 { (s, Seq::empty()) } else {
        let (s1, evs) = dec_run(s, bytes.drop_last());
        let (s2, o) = dec_step(s1, bytes.last());
        (s2, match o { Some(e) => evs.push(e), None => evs })
    }
}
} // verus!
