// Tokenizer: specification written from the statement of C07 (README quoting rules), byte level.
verus! {
pub enum TMode { Space, Normal, Quoted, Unescape }

pub struct TState {
    pub done: Seq<Seq<u8>>,      // completed tokens
    pub cur: Option<Seq<u8>>,    // token being built
    pub mode: TMode,
}

pub open spec fn t_init() -> TState { TState { done: Seq::empty(), cur: None, mode: TMode::Space } }

pub open spec fn t_finish(s: TState) -> Seq<Seq<u8>> {
    match s.cur { Some(c) => s.done.push(c), None => s.done }
}

/// one character of the line: split at spaces; a token starting with `"` runs to the next unescaped `"`,
/// inside it `\x` stands for x; a new token may start directly after a closing quote
pub open spec fn t_step(s: TState, b: u8) -> TState {
    match s.mode {
        TMode::Space =>
            if b == 0x22 { TState { done: t_finish(s), cur: Some(Seq::empty()), mode: TMode::Quoted } }
            else if b == 0x20 { s }
            else { TState { done: t_finish(s), cur: Some(seq![b]), mode: TMode::Normal } },
        TMode::Normal =>
            if b == 0x20 { TState { done: t_finish(s), cur: None, mode: TMode::Space } }
            else { TState { cur: Some(s.cur.unwrap().push(b)), ..s } },
        TMode::Quoted =>
            if b == 0x22 { TState { done: t_finish(s), cur: None, mode: TMode::Space } }
            else if b == 0x5C { TState { mode: TMode::Unescape, ..s } }
            else { TState { cur: Some(s.cur.unwrap().push(b)), ..s } },
        TMode::Unescape => TState { cur: Some(s.cur.unwrap().push(b)), mode: TMode::Quoted, ..s },
    }
}

pub open spec fn t_run(line: Seq<u8>) -> TState
    decreases line.len()
{
    if line.len() == 0 { t_init() } else { t_step(t_run(line.drop_last()), line.last()) }
}

/// the tokens of a line
pub open spec fn tokenize(line: Seq<u8>) -> Seq<Seq<u8>> { t_finish(t_run(line)) }

pub open spec fn nul_free(s: Seq<u8>) -> bool { forall|i: int| 0 <= i < s.len() ==> s[i] != 0 }

/// NUL-joined rendering of a token list (no trailing separator)
pub open spec fn join0(ts: Seq<Seq<u8>>) -> Seq<u8>
    decreases ts.len()
{
    if ts.len() == 0 { Seq::empty() }
    else if ts.len() == 1 { ts[0] }
    else { join0(ts.drop_last()) + seq![0u8] + ts.last() }
}

/// index of the first NUL byte, or the length
pub open spec fn first0(s: Seq<u8>) -> int
    decreases s.len()
{
    if s.len() == 0 || s[0] == 0 { 0 } else { 1 + first0(s.drop_first()) }
}

/// split at NUL bytes (always at least one piece)
pub open spec fn split0(s: Seq<u8>) -> Seq<Seq<u8>>
    decreases s.len()
    via split0_dec
{
    let p = first0(s);
    if p >= s.len() { seq![s] } else { seq![s.subrange(0, p)] + split0(s.subrange(p + 1, s.len() as int)) }
}

#[via_fn]
proof fn split0_dec(s: Seq<u8>) {
    lemma_first0(s);
}

pub proof fn lemma_first0(s: Seq<u8>)
    ensures 0 <= first0(s) <= s.len(),
        first0(s) < s.len() ==> s[first0(s)] == 0,
        forall|i: int| 0 <= i < first0(s) ==> s[i] != 0,
    decreases s.len()
{
    if s.len() == 0 || s[0] == 0 {
    } else {
        lemma_first0(s.drop_first());
        assert forall|i: int| 0 <= i < first0(s) implies s[i] != 0 by {
            if i > 0 { assert(s.drop_first()[i - 1] == s[i]); }
        }
    }
}

pub proof fn lemma_first0_is(s: Seq<u8>, p: int)
    requires 0 <= p <= s.len(), forall|i: int| 0 <= i < p ==> s[i] != 0, p < s.len() ==> s[p] == 0
    ensures first0(s) == p
{
    lemma_first0(s);
    let q = first0(s);
    if q < p { }
    if p < q { }
}

/// the token list represented by (raw text, empty flag) -- the representation of `Tokens` / `TokensIter`
pub open spec fn tokens_view(raw: Seq<u8>, empty: bool) -> Seq<Seq<u8>> {
    if empty { Seq::empty() } else { split0(raw) }
}

pub open spec fn t_wf(s: TState) -> bool {
    (s.mode is Space <==> s.cur is None)
}

pub proof fn lemma_run_wf(line: Seq<u8>)
    ensures t_wf(t_run(line))
    decreases line.len()
{
    if line.len() > 0 { lemma_run_wf(line.drop_last()); }
}

// appending a byte to the last token appends it to the join
pub proof fn lemma_join_push_last(ts: Seq<Seq<u8>>, b: u8)
    requires ts.len() > 0
    ensures join0(ts.drop_last().push(ts.last().push(b))) == join0(ts).push(b)
{
    let ts2 = ts.drop_last().push(ts.last().push(b));
    assert(ts2.drop_last() =~= ts.drop_last());
    if ts.len() == 1 {
    } else {
        assert(join0(ts2) =~= join0(ts).push(b));
    }
}

// starting a new token
pub proof fn lemma_join_push_token(ts: Seq<Seq<u8>>, t: Seq<u8>)
    ensures join0(ts.push(t)) == if ts.len() == 0 { t } else { join0(ts) + seq![0u8] + t }
{
    assert(ts.push(t).drop_last() =~= ts);
}

pub open spec fn all_nul_free(ts: Seq<Seq<u8>>) -> bool { forall|k: int| 0 <= k < ts.len() ==> nul_free(#[trigger] ts[k]) }

/// tokens of a NUL-free line are NUL-free
pub proof fn lemma_tokens_nul_free(line: Seq<u8>)
    requires nul_free(line)
    ensures all_nul_free(t_finish(t_run(line))), all_nul_free(t_run(line).done),
        t_run(line).cur is Some ==> nul_free(t_run(line).cur.unwrap()),
    decreases line.len()
{
    if line.len() > 0 {
        let pre = line.drop_last();
        lemma_tokens_nul_free(pre);
        lemma_run_wf(pre);
        let s = t_run(pre);
        let b = line.last();
        assert(b != 0);
        let s2 = t_step(s, b);
        assert(s2 == t_run(line));
        assert(all_nul_free(s2.done));
        assert(s2.cur is Some ==> nul_free(s2.cur.unwrap()));
    }
}

/// splitting the NUL-joined rendering of NUL-free tokens gives the tokens back
pub proof fn lemma_split_join(ts: Seq<Seq<u8>>)
    requires ts.len() > 0, all_nul_free(ts)
    ensures split0(join0(ts)) == ts
    decreases ts.len()
{
    if ts.len() == 1 {
        let s = ts[0];
        lemma_first0_is(s, s.len() as int);
        assert(split0(s) =~= seq![s]);
        assert(ts =~= seq![s]);
    } else {
        // peel the FIRST token: join0(ts) = ts[0] + [0] + join0(ts.drop_first())
        lemma_join_drop_first(ts);
        let s = join0(ts);
        let t0 = ts[0];
        let rest = ts.drop_first();
        assert(all_nul_free(rest)) by { assert forall|k: int| 0 <= k < rest.len() implies nul_free(#[trigger] rest[k]) by { assert(rest[k] == ts[k + 1]); } }
        lemma_split_join(rest);
        assert(s == t0 + seq![0u8] + join0(rest));
        assert forall|i: int| 0 <= i < t0.len() implies s[i] != 0 by { assert(s[i] == t0[i]); }
        assert(s[t0.len() as int] == 0);
        lemma_first0_is(s, t0.len() as int);
        assert(s.subrange(0, t0.len() as int) =~= t0);
        assert(s.subrange(t0.len() as int + 1, s.len() as int) =~= join0(rest));
        assert(split0(s) =~= seq![t0] + rest);
        assert(seq![t0] + rest =~= ts);
    }
}

pub proof fn lemma_join_drop_first(ts: Seq<Seq<u8>>)
    requires ts.len() >= 2
    ensures join0(ts) == ts[0] + seq![0u8] + join0(ts.drop_first())
    decreases ts.len()
{
    if ts.len() == 2 {
        assert(ts.drop_last() =~= seq![ts[0]]);
        assert(ts.drop_first() =~= seq![ts[1]]);
        assert(join0(ts.drop_last()) == ts[0]);
        assert(join0(ts.drop_first()) == ts[1]);
        assert(ts.last() == ts[1]);
        assert(join0(ts) == join0(ts.drop_last()) + seq![0u8] + ts.last());
    } else {
        lemma_join_drop_first(ts.drop_last());
        assert(ts.drop_last().drop_first() =~= ts.drop_first().drop_last());
        assert(ts.drop_last()[0] == ts[0]);
        assert(ts.drop_first().last() == ts.last());
        assert(join0(ts) =~= ts[0] + seq![0u8] + join0(ts.drop_first()));
    }
}
} // verus!
