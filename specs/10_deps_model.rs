// Models of external crates (TRUSTED stand-ins; each is listed in the evidence trusted base).
verus! {
// ------------------------------------------------------------------------------------------------
// bitflags: `bitflags! { struct Flags: u8 { const CSI_STARTED = 1; } }` as used by input.rs (rule D8).
// Semantics of the three generated functions used by the library (empty / contains / set) on a u8 bit set.
// ------------------------------------------------------------------------------------------------
#[derive(Debug)]
pub struct Flags { pub bits: u8 }

impl Flags {
    pub const CSI_STARTED: Flags = Flags { bits: 1 };

    pub open spec fn has(&self, other: Flags) -> bool { (self.bits & other.bits) == other.bits }

    pub fn empty() -> (r: Self)
        ensures !r.has(Flags::CSI_STARTED),
    {
        let r = Flags { bits: 0 };
        assert((0u8 & 1u8) != 1u8) by (bit_vector);
        r
    }

    pub fn contains(&self, other: Flags) -> (r: bool)
        ensures r == self.has(other),
    {
        (self.bits & other.bits) == other.bits
    }

    pub fn set(&mut self, other: Flags, value: bool)
        ensures other.bits == 1 ==> final(self).has(Flags::CSI_STARTED) == value,
    {
        let ghost a = self.bits;
        if value {
            self.bits = self.bits | other.bits;
            assert(((a | 1u8) & 1u8) == 1u8) by (bit_vector);
        } else {
            self.bits = self.bits & !other.bits;
            assert(((a & !1u8) & 1u8) != 1u8) by (bit_vector);
        }
    }
}
} // verus!
