// Models of external crates (TRUSTED stand-ins; each is listed in the evidence trusted base).
verus! {
// ------------------------------------------------------------------------------------------------
// bitflags: `bitflags! { struct Flags: u8 { const CSI_STARTED = 1; } }` as used by input.rs (rule D8).
// Semantics of the three generated functions used by the library (empty / contains / set) on a u8 bit set.
// ------------------------------------------------------------------------------------------------
#[derive(Debug)]
pub struct Flags { pub bits: u8 }

impl Flags {
    pub const CSI_STARTED: Flags = Flags { bits: 1 };

    pub open spec fn has(&self, other: Flags) -> bool { (self.bits & other.bits) == other.bits }

    pub fn empty() -> (r: Self)
        ensures !r.has(Flags::CSI_STARTED),
    {
        let r = Flags { bits: 0 };
        assert((0u8 & 1u8) != 1u8) by (bit_vector);
        r
    }

    pub fn contains(&self, other: Flags) -> (r: bool)
        ensures r == self.has(other),
    {
        (self.bits & other.bits) == other.bits
    }

    pub fn set(&mut self, other: Flags, value: bool)
        ensures other.bits == 1 ==> final(self).has(Flags::CSI_STARTED) == value,
    {
        let ghost a = self.bits;
        if value {
            self.bits = self.bits | other.bits;
            assert(((a | 1u8) & 1u8) == 1u8) by (bit_vector);
        } else {
            self.bits = self.bits & !other.bits;
            assert(((a & !1u8) & 1u8) != 1u8) by (bit_vector);
        }
    }
}
} // verus!
verus! {
// ------------------------------------------------------------------------------------------------
// embedded_io: ghost-sink model of `Write` (rule X6).  The sink is modelled by the history of calls made to it:
// an event log and a count of failed operations.  `write_all` / `flush` are the only operations the library
// performs; their contracts are ASSUMPTIONS about every sink (trait-level, unverified).
// ------------------------------------------------------------------------------------------------
pub mod embedded_io {
    use vstd::prelude::*;
    verus! {
    /// one successful operation on the sink
    pub enum Ev { W(Seq<u8>), F }

    /// (the library does not look at error kinds; present so that code which starts to do so is still parsed)
    #[derive(Debug, Clone, Copy, PartialEq, Eq)]
    pub enum ErrorKind { Other, NotFound, PermissionDenied, ConnectionRefused, ConnectionReset, ConnectionAborted, NotConnected,
        AddrInUse, AddrNotAvailable, BrokenPipe, AlreadyExists, InvalidInput, InvalidData, TimedOut, Interrupted, Unsupported,
        OutOfMemory, WriteZero }

    pub trait Error: core::fmt::Debug {
        fn kind(&self) -> ErrorKind;
    }

    impl Error for core::convert::Infallible {
        fn kind(&self) -> ErrorKind { ErrorKind::Other }
    }

    pub trait ErrorType {
        type Error: Error;
    }

    pub trait Write: ErrorType {
        /// successful operations so far, in order
        spec fn evs(&self) -> Seq<Ev>;
        /// number of failed operations so far
        spec fn errs(&self) -> nat;

        /// (not used by the library; implemented by sinks)
        fn write(&mut self, buf: &[u8]) -> Result<usize, Self::Error>;

        fn write_all(&mut self, buf: &[u8]) -> (r: Result<(), Self::Error>)
            ensures
                r is Ok ==> final(self).evs() == old(self).evs().push(Ev::W(buf@)) && final(self).errs() == old(self).errs(),
                r is Err ==> final(self).errs() == old(self).errs() + 1
                    && (final(self).evs() == old(self).evs()
                        || exists|k: int| 0 <= k <= buf@.len() && final(self).evs() == old(self).evs().push(Ev::W(#[trigger] buf@.subrange(0, k)))),
        ;

        fn flush(&mut self) -> (r: Result<(), Self::Error>)
            ensures
                r is Ok ==> final(self).evs() == old(self).evs().push(Ev::F) && final(self).errs() == old(self).errs(),
                r is Err ==> final(self).evs() == old(self).evs() && final(self).errs() == old(self).errs() + 1,
        ;
    }
    } // verus!
}

/// all bytes written, in order
pub open spec fn ev_bytes(evs: Seq<embedded_io::Ev>) -> Seq<u8>
    decreases evs.len()
{
    if evs.len() == 0 { Seq::empty() } else {
        match evs.last() {
            embedded_io::Ev::W(b) => ev_bytes(evs.drop_last()) + b,
            embedded_io::Ev::F => ev_bytes(evs.drop_last()),
        }
    }
}

/// no write after the last flush (C15): the log is empty or ends with a flush
pub open spec fn all_flushed(evs: Seq<embedded_io::Ev>) -> bool {
    evs.len() == 0 || evs.last() is F
}
} // verus!
