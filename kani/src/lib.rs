//! Kani harnesses on the REAL functions (visibility-only copy of /repo's working tree, see tools/kani_run.py).
//! Full-domain harnesses (loop-free or with passing unwinding assertions) are complete proofs that tie the
//! vstd::utf8 based contracts to core's own UTF-8 implementation; the raw-pointer harnesses are BOUNDED stand-ins.
#![allow(unused)]

#[cfg(kani)]
mod harnesses {
    use embedded_cli::utf8::Utf8Accum;
    use embedded_cli::utils;

    /// FULL DOMAIN: utils::encode_utf8 agrees with char::encode_utf8 for every scalar value
    #[kani::proof]
    #[kani::unwind(5)]
    fn encode_utf8_matches_core() {
        let c: char = kani::any();
        let mut b1 = [0u8; 4];
        let mut b2 = [0u8; 4];
        let r1 = utils::encode_utf8(c, &mut b1);
        let r2 = c.encode_utf8(&mut b2);
        assert!(r1.as_bytes() == r2.as_bytes());
    }

    /// FULL DOMAIN over every sequence of four bytes fed from the idle state (this reaches every state of the
    /// accumulator: at most three octets are ever pending): whatever Utf8Accum hands out is well-formed UTF-8 according
    /// to core::str::from_utf8 (soundness of the vstd-based contract w.r.t. core)
    #[kani::proof]
    #[kani::unwind(6)]
    fn push_byte_sound() {
        let bytes: [u8; 4] = kani::any();
        let mut acc = Utf8Accum::default();
        for i in 0..4 {
            if let Some(s) = acc.push_byte(bytes[i]) {
                assert!(core::str::from_utf8(s.as_bytes()).is_ok());
            }
        }
    }

    /// FULL DOMAIN: every scalar value, fed octet by octet from the idle state, comes out once, unchanged, at its
    /// last octet (completeness)
    #[kani::proof]
    #[kani::unwind(6)]
    fn push_byte_complete() {
        let c: char = kani::any();
        kani::assume(c as u32 >= 0x20);
        let mut buf = [0u8; 4];
        let n = c.encode_utf8(&mut buf).len();
        let mut acc = Utf8Accum::default();
        for i in 0..4 {
            if i < n {
                let r = acc.push_byte(buf[i]);
                if i + 1 < n {
                    assert!(r.is_none());
                } else {
                    let s = r.unwrap();
                    assert!(s.len() == n);
                    assert!(s.as_bytes()[0] == buf[0] && s.as_bytes()[n - 1] == buf[n - 1]);
                }
            }
        }
    }

    /// FULL DOMAIN: char_pop_front on one encoded scalar followed by an ASCII byte returns that scalar and the rest
    #[kani::proof]
    #[kani::unwind(6)]
    fn char_pop_front_one_scalar() {
        let c: char = kani::any();
        let mut buf = [0u8; 5];
        let n = c.encode_utf8(&mut buf[..4]).len();
        buf[n] = b'x';
        let s = core::str::from_utf8(&buf[..n + 1]).unwrap();
        let (d, rest) = utils::char_pop_front(s).unwrap();
        assert!(d == c);
        assert!(rest.len() == 1);
    }

    /// BOUNDED (lengths <= 8): the raw-pointer wrapper copies exactly n bytes and stays in bounds
    #[kani::proof]
    #[kani::unwind(10)]
    fn copy_nonoverlapping_bounded() {
        let src: [u8; 8] = kani::any();
        let mut dst: [u8; 8] = kani::any();
        let before = dst;
        let ls: usize = kani::any();
        let ld: usize = kani::any();
        let n: usize = kani::any();
        kani::assume(ls <= 8 && ld <= 8 && n <= ls && n <= ld);
        unsafe { utils::copy_nonoverlapping(&src[..ls], &mut dst[..ld], n) };
        for i in 0..8 {
            if i < n {
                assert!(dst[i] == src[i]);
            } else {
                assert!(dst[i] == before[i]);
            }
        }
    }

    /// BOUNDED (lengths <= 8): split_at_mut returns the two disjoint halves
    #[kani::proof]
    #[kani::unwind(10)]
    fn split_at_mut_bounded() {
        let mut a: [u8; 8] = kani::any();
        let copy = a;
        let len: usize = kani::any();
        let mid: usize = kani::any();
        kani::assume(len <= 8 && mid <= len);
        let (l, r) = unsafe { utils::split_at_mut(&mut a[..len], mid) };
        assert!(l.len() == mid && r.len() == len - mid);
        for i in 0..8 {
            if i < mid {
                assert!(l[i] == copy[i]);
            } else if i < len {
                assert!(r[i - mid] == copy[i]);
            }
        }
    }
}
