use vstd::prelude::*;
verus! {
pub assume_specification [core::str::from_utf8_unchecked] (b: &[u8]) -> (r: &str) requires vstd::utf8::valid_utf8(b@), ensures r@ == vstd::utf8::decode_utf8(b@);
pub trait Buffer {
    spec fn bytes(&self) -> Seq<u8>;

    fn as_slice(&self) -> (r: &[u8])
        ensures r@ == self.bytes();

    fn as_slice_mut(&mut self) -> (r: &mut [u8])
        ensures r@ == old(self).bytes(),
                final(self).bytes() == final(r)@;

    fn len(&self) -> (r: usize)
        ensures r == self.bytes().len()
    {
        self.as_slice().len()
    }
}

impl<const SIZE: usize> Buffer for [u8; SIZE] {
    open spec fn bytes(&self) -> Seq<u8> { self@ }
    fn as_slice(&self) -> &[u8] {
        self
    }

    fn as_slice_mut(&mut self) -> &mut [u8] {
        self
    }
}

pub struct Editor<B: Buffer> {
    buffer: B,
    cursor: usize,
    valid: usize,
}

impl<B: Buffer> Editor<B> {
    pub closed spec fn buf(&self) -> Seq<u8> { self.buffer.bytes() }
    pub closed spec fn cur(&self) -> usize { self.cursor }
    pub fn put(&mut self, i: usize, b: u8)
        requires i < old(self).buf().len()
        ensures final(self).buf() == old(self).buf().update(i as int, b),
          final(self).cur() == old(self).cur(),
    {
        self.buffer.as_slice_mut()[i] = b;
    }
}
}
fn main() {}
