use vstd::prelude::*;
verus! {
pub assume_specification [core::str::from_utf8_unchecked] (b: &[u8]) -> (r: &str) requires vstd::utf8::valid_utf8(b@), ensures r@ == vstd::utf8::decode_utf8(b@);
use vstd::string::StringSliceAdditionalSpecFns;
use vstd::slice::SliceIndexSpec;
pub assume_specification<T, I> [<[T]>::get_unchecked::<I>] (s: &[T], i: I) -> (r: &<I as core::slice::SliceIndex<[T]>>::Output)
   where I: core::slice::SliceIndex<[T]>
   requires i.in_bounds(s),
   ensures i.index_postcondition(s, r);

pub fn k(text: &[u8], pos: usize, v: usize) -> (r: &[u8])
  requires pos <= v <= text@.len()
  ensures r@ == text@.subrange(pos as int, v as int)
{
    unsafe { text.get_unchecked(pos..v) }
}
pub fn k2(text: &[u8], v: usize) -> (r: &[u8])
  requires v <= text@.len()
  ensures r@ == text@.subrange(0, v as int)
{
    unsafe { text.get_unchecked(..v) }
}
}
fn main() {}
