#!/usr/bin/env python3
"""Crude pretty-printer for Verus `--log vir` (compact) output: prints spec/proof fn signatures+bodies as pseudo-Rust.
usage: virpp.py crate.vir [name-substring]"""
import sys,re
def tok(s):
    i=0;n=len(s)
    while i<n:
        c=s[i]
        if c.isspace(): i+=1
        elif c==';' :
            j=s.find('\n',i); i=n if j<0 else j
        elif c in '()': yield c; i+=1
        elif c=='"':
            j=i+1
            while s[j]!='"':
                j+=2 if s[j]=='\\' else 1
            yield s[i:j+1]; i=j+1
        else:
            j=i
            while j<n and not s[j].isspace() and s[j] not in '()': j+=1
            yield s[i:j]; i=j
def parse(ts):
    st=[[]]
    for t in ts:
        if t=='(': st.append([])
        elif t==')':
            x=st.pop(); st[-1].append(x)
        else: st[-1].append(t)
    return st[0]
def kw(l,k):
    for i,x in enumerate(l):
        if x==k and i+1<len(l): return l[i+1]
    return None
def path(x):
    # (Fun :path a::b)
    if isinstance(x,list):
        p=kw(x,':path')
        if p: return p
        for y in x:
            r=path(y)
            if r: return r
    return None
OPS={'Add':'+','Sub':'-','Mul':'*','EuclideanDiv':'/','EuclideanMod':'%','Le':'<=','Lt':'<','Ge':'>=','Gt':'>','BitAnd':'&','BitOr':'|','BitXor':'^','Shl':'<<','Shr':'>>','And':'&&','Or':'||','Implies':'==>','Eq':'==','Ne':'!='}
def e(x):
    if not isinstance(x,list): return str(x)
    if not x: return '()'
    h=x[0]
    if h in ('>','@','@@','->'):  # wrappers
        if h=='->': return e(x[2])
        if h in('@','@@'): return e(x[2]) if len(x)>2 else '?'
        return e(x[1:])
    if h=='Block':
        return '{ '+'; '.join(e(y) for y in x[1:] if y!=[] )+' }'
    if h=='Const':
        c=x[1]; return str(c[-1]) if isinstance(c,list) else str(c)
    if h=='ReadPlace': return e(x[1])
    if h=='Place':
        if x[1]=='Local': return e(x[2])
        return 'place('+ ' '.join(e(y) for y in x[1:])+')'
    if h=='VarIdent': return x[1].strip('"')
    if h=='Call':
        tgt=kw(x,':target'); args=kw(x,':args') or []
        name=path(tgt) or e(tgt)
        return name.replace('vstd::utf8::','').replace('vstd::seq::Seq::','Seq::')+'('+', '.join(e(a) for a in args)+')'
    if h=='Binary':
        op=x[1]; 
        o=None
        def find(z):
            if isinstance(z,list):
                for y in z:
                    r=find(y)
                    if r: return r
            elif z in OPS: return OPS[z]
            return None
        o=find(op) or str(op)
        return '('+e(x[2])+' '+o+' '+e(x[3])+')'
    if h=='Logical':
        o=OPS.get(x[1][1],str(x[1])); return '('+e(x[2])+' '+o+' '+e(x[3])+')'
    if h=='Unary':
        return str(x[1][-1] if isinstance(x[1],list) else x[1])+'('+e(x[2])+')'
    if h=='Multi':
        ops=[y for y in flatten(x[1]) if y in OPS]; args=x[2]
        out=e(args[0])
        for o,a in zip(ops,args[1:]): out+=' '+OPS[o]+' '+e(a)
        return '('+out+')'
    if h=='If': return 'if '+e(x[1])+' { '+e(x[2])+' } else { '+(e(x[3]) if len(x)>3 else '')+' }'
    if h=='Ctor': return 'Ctor'+str([e(y) for y in x[1:]])
    return str(h)+'['+' '.join(e(y) for y in x[1:])+']'
def flatten(z):
    if isinstance(z,list):
        for y in z: yield from flatten(y)
    else: yield z
def main():
    s=open(sys.argv[1]).read(); sub=sys.argv[2] if len(sys.argv)>2 else ''
    for f in parse(tok(s)):
        if isinstance(f,list) and f and f[0]=='Function':
            name=path(f[1]); 
            if sub not in name: continue
            params=kw(f,':params') or []
            ps=', '.join(e(kw(p,':name')) for p in params if isinstance(p,list))
            print('fn',name,'(',ps,') mode',kw(f,':mode'))
            for k in (':require',':ensure',':d'):
                v=kw(f,k)
                if v: print('   ',k, ' ;; '.join(e(y) for y in v))
            b=kw(f,':body')
            if b is not None: print('    body', e(b))
            print()
main()
