use vstd::prelude::*;
verus! {
pub assume_specification [core::str::from_utf8_unchecked] (b: &[u8]) -> (r: &str) requires vstd::utf8::valid_utf8(b@), ensures r@ == vstd::utf8::decode_utf8(b@);
use vstd::std_specs::cmp::{PartialEqSpec, PartialEqSpecImpl};
#[derive(Debug)]
pub enum Arg<'a> {
    DoubleDash,
    LongOption(&'a str),
    ShortOption(char),
    Value(&'a str),
}
pub open spec fn arg_eq(a: &Arg<'_>, b: &Arg<'_>) -> bool {
    match (*a, *b) {
        (Arg::DoubleDash, Arg::DoubleDash) => true,
        (Arg::LongOption(x), Arg::LongOption(y)) => x@ == y@,
        (Arg::ShortOption(x), Arg::ShortOption(y)) => x == y,
        (Arg::Value(x), Arg::Value(y)) => x@ == y@,
        _ => false,
    }
}
impl<'a> PartialEqSpecImpl for Arg<'a> {
    open spec fn obeys_eq_spec() -> bool { true }
    open spec fn eq_spec(&self, other: &Self) -> bool { arg_eq(self, other) }
}
impl<'a> PartialEq for Arg<'a> {
    fn eq(&self, other: &Self) -> (r: bool) 
    {
        match (self, other) {
            (Arg::DoubleDash, Arg::DoubleDash) => true,
            (Arg::LongOption(x), Arg::LongOption(y)) => *x == *y,
            (Arg::ShortOption(x), Arg::ShortOption(y)) => *x == *y,
            (Arg::Value(x), Arg::Value(y)) => *x == *y,
            _ => false,
        }
    }
}
pub fn is_h(arg: Arg<'_>) -> (r: bool)
   ensures r == (arg matches Arg::ShortOption(c) && c == 'h')
{
    arg == Arg::ShortOption('h')
}
}
fn main() {}
