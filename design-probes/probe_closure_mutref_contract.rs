use vstd::prelude::*;
verus! {
pub assume_specification [core::str::from_utf8_unchecked] (b: &[u8]) -> (r: &str) requires vstd::utf8::valid_utf8(b@), ensures r@ == vstd::utf8::decode_utf8(b@);
pub struct Autocompletion<'a> {
    autocompleted: Option<usize>,
    buffer: &'a mut [u8],
    partial: bool,
}
impl<'a> Autocompletion<'a> {
    pub closed spec fn n(&self) -> Option<usize> { self.autocompleted }
    pub fn merge(&mut self, x: usize) 
       ensures final(self).n() == Some(x)
    { self.autocompleted = Some(x); }
    pub fn get(&self) -> (r: Option<usize>) ensures r == self.n() { self.autocompleted }
}
pub trait Autocomplete {
    fn autocomplete(request: usize, autocompletion: &mut Autocompletion<'_>)
      ensures final(autocompletion).n() is Some;
}
pub struct Editor { valid: usize, buf: [u8; 8] }
impl Editor {
    pub closed spec fn v(&self) -> usize { self.valid }
    pub fn autocompletion(&mut self, f: impl FnOnce(usize, &mut Autocompletion<'_>)) 
       requires forall|r: usize, a: &mut Autocompletion<'_>| f.requires((r, a)),
                forall|r: usize, a: &mut Autocompletion<'_>| f.ensures((r, a), ()) ==> final(a).n() == Some(1usize),
       ensures final(self).v() == 1
    {
        let (text, buf) = self.buf.split_at_mut(4);
        let mut autocompletion = Autocompletion { autocompleted: None, buffer: buf, partial: false };
        f(3, &mut autocompletion);
        if let Some(n) = autocompletion.get() { self.valid = n; }
    }
}
pub fn process_autocomplete<C: Autocomplete>(editor: &mut Editor) 
   ensures final(editor).v() == 1
{
    editor.autocompletion(|request: usize, autocompletion: &mut Autocompletion<'_>| 
      ensures final(autocompletion).n() == Some(1usize)
    {
        C::autocomplete(request, autocompletion);
        autocompletion.merge(1);
    });
}
}
fn main() {}
