use vstd::prelude::*;
verus! {
pub assume_specification [core::str::from_utf8_unchecked] (b: &[u8]) -> (r: &str) requires vstd::utf8::valid_utf8(b@), ensures r@ == vstd::utf8::decode_utf8(b@);
#[derive(Debug, Eq, PartialEq)]
pub struct Tokens<'a> {
    empty: bool,
    tokens: &'a str,
}
impl<'a> Clone for Tokens<'a> {
    fn clone(&self) -> (r: Self) ensures r == *self { Tokens { empty: self.empty, tokens: self.tokens } }
}
#[derive(Debug)]
pub struct ArgList<'a> {
    tokens: Tokens<'a>,
}
impl<'a> Clone for ArgList<'a> {
    fn clone(&self) -> (r: Self) ensures r == *self { ArgList { tokens: self.tokens.clone() } }
}
impl<'a> ArgList<'a> {
    pub closed spec fn v(&self) -> (bool, Seq<char>) { (self.tokens.empty, self.tokens.tokens@) }
    pub fn dup(&self) -> (r: ArgList<'a>) ensures r.v() == self.v() { self.clone() }
}
}
fn main() {}
