use vstd::prelude::*;
verus! {
pub assume_specification [core::str::from_utf8_unchecked] (b: &[u8]) -> (r: &str) requires vstd::utf8::valid_utf8(b@), ensures r@ == vstd::utf8::decode_utf8(b@);
pub trait ErrorT: Sized {}
pub trait Write {
    type Error: ErrorT;
    spec fn log(&self) -> Seq<u8>;
    fn write_all(&mut self, buf: &[u8]) -> (r: Result<(), Self::Error>)
        ensures r is Ok ==> final(self).log() == old(self).log() + buf@;
    fn flush(&mut self) -> (r: Result<(), Self::Error>)
        ensures final(self).log() == old(self).log();
}
pub enum ProcessError<E: ErrorT> {
    ParseError(u8),
    WriteError(E),
}
// NOTE: `impl From<E> for ProcessError<E>` omitted: vstd attaches a FromSpec obligation to From impls;
// service.rs From impls are extracted as #[verifier::external] (cli.rs only uses `?` with identical error types).
pub trait Help {
    fn command_count() -> usize;
}
pub trait Proc<W: Write<Error = E>, E: ErrorT> {
    spec fn calls(&self) -> nat;
    fn process(&mut self, w: &mut W, x: u8) -> (r: Result<(), ProcessError<E>>)
      ensures final(self).calls() == old(self).calls() + 1;
}
#[verifier::reject_recursive_types(E)]
pub struct Cli<W: Write<Error = E>, E: ErrorT> {
    ed: Option<u8>,
    writer: W,
}
impl<W: Write<Error = E>, E: ErrorT> Cli<W, E> {
    pub closed spec fn wlog(&self) -> Seq<u8> { self.writer.log() }
    fn inner<C: Help, P: Proc<W, E>>(&mut self, ed: &mut u8, b: u8, p: &mut P) -> (r: Result<(), E>) 
       ensures final(p).calls() <= old(p).calls() + 1
    {
        let n = C::command_count();
        self.writer.write_all(&[b])?;
        match p.process(&mut self.writer, b) {
            Err(ProcessError::WriteError(e)) => Err(e),
            _ => Ok(()),
        }
    }
    pub fn process_byte<C: Help, P: Proc<W, E>>(&mut self, b: u8, p: &mut P) -> (r: Result<(), E>)
    {
        if let Some(mut ed) = self.ed.take() {
            let result = match Some(b) { Some(input) => match input {
                    0 => self.inner::<C, _>(&mut ed, input, p),
                    _ => Ok(()),
                }, None => Ok(()) };
            self.ed = Some(ed);
            result
        } else {
            Ok(())
        }
    }
}
}
fn main() {}
