use vstd::prelude::*;
verus! {
use vstd::utf8::*;
use vstd::string::StringSliceAdditionalSpecFns;
use vstd::slice::SliceIndexSpec;
pub assume_specification [core::str::from_utf8_unchecked] (b: &[u8]) -> (r: &str)
  requires valid_utf8(b@),
  ensures r@ == decode_utf8(b@), r.spec_bytes() == b@;
pub assume_specification<T, I> [<[T]>::get_unchecked::<I>] (s: &[T], i: I) -> (r: &<I as core::slice::SliceIndex<[T]>>::Output)
   where I: core::slice::SliceIndex<[T]>
   requires i.in_bounds(s),
   ensures i.index_postcondition(s, r);

pub trait Buffer {
    spec fn bytes(&self) -> Seq<u8>;
    fn as_slice(&self) -> (r: &[u8])
        ensures r@ == self.bytes();
    fn as_slice_mut(&mut self) -> (r: &mut [u8])
        ensures r@ == old(self).bytes(), final(self).bytes() == final(r)@;
    fn len(&self) -> (r: usize)
        ensures r == self.bytes().len()
    {
        self.as_slice().len()
    }
}

pub mod utils {
    use vstd::prelude::*;
    use vstd::utf8::*;
    use vstd::string::StringSliceAdditionalSpecFns;
    verus!{
    /// byte offset of the k-th char
    pub open spec fn byte_off(cs: Seq<char>, k: int) -> int { encode_utf8(cs.subrange(0, k)).len() as int }

    #[verifier::external_body]
    pub fn char_byte_index(text: &str, char_index: usize) -> (r: Option<usize>)
        ensures r == (if char_index < text@.len() { Some(byte_off(text@, char_index as int) as usize) } else { None::<usize> })
    { unimplemented!() }

    #[verifier::external_body]
    pub fn char_count(text: &str) -> (r: usize)
        ensures r == text@.len()
    { unimplemented!() }

    #[verifier::external_body]
    pub unsafe fn copy_nonoverlapping(src: &[u8], dst: &mut [u8], len: usize)
        requires src@.len() >= len, old(dst)@.len() >= len,
        ensures final(dst)@ == src@.subrange(0, len as int) + old(dst)@.subrange(len as int, old(dst)@.len() as int)
    { unimplemented!() }
    }
}

pub struct Editor<B: Buffer> {
    buffer: B,
    cursor: usize,
    valid: usize,
}

impl<B: Buffer> Editor<B> {
    pub closed spec fn cap(&self) -> nat { self.buffer.bytes().len() }
    pub closed spec fn line_bytes(&self) -> Seq<u8> { self.buffer.bytes().subrange(0, self.valid as int) }
    pub closed spec fn cur(&self) -> nat { self.cursor as nat }
    pub closed spec fn wf(&self) -> bool {
        self.valid <= self.buffer.bytes().len() && self.buffer.bytes().len() <= isize::MAX
        && valid_utf8(self.line_bytes()) && self.cursor <= decode_utf8(self.line_bytes()).len()
    }
    pub open spec fn line(&self) -> Seq<char> { decode_utf8(self.line_bytes()) }

    pub fn text(&self) -> (r: &str)
        requires self.wf()
        ensures r@ == self.line(), r.spec_bytes() == self.line_bytes()
    {
        // SAFETY: buffer stores only valid utf-8 bytes 0..valid range
        unsafe {
            core::str::from_utf8_unchecked(self.buffer.as_slice().get_unchecked(..self.valid))
        }
    }

    pub fn insert(&mut self, text: &str) -> (r: Option<&str>)
        requires old(self).wf(), text@.len() <= usize::MAX - old(self).cur()
        ensures
            final(self).wf(), final(self).cap() == old(self).cap(),
            (r is Some) == (old(self).line_bytes().len() + text.spec_bytes().len() <= old(self).cap()),
            r is None ==> final(self).line_bytes() == old(self).line_bytes() && final(self).cur() == old(self).cur(),
            r is Some ==> {
                let c = old(self).cur() as int; let l = old(self).line();
                &&& final(self).line() == l.subrange(0, c) + text@ + l.subrange(c, l.len() as int)
                &&& final(self).cur() == c + text@.len()
                &&& r.unwrap()@ == text@ },
    {
        let remaining = self.buffer.len() - self.valid;
        let chars = utils::char_count(text);
        let ghost tv = text@;
        let text = text.as_bytes();
        if remaining < text.len() {
            //TODO: try to grow buffer
            return None;
        }
        let ghost old_bytes = self.line_bytes();
        let ghost l = self.line();
        let ghost c = self.cursor as int;
        proof {
            encode_utf8_valid_utf8(tv);
            encode_utf8_decode_utf8(tv);
            lemma_split_at_char(old_bytes, c);
        }
        let ghost b0 = self.buffer.bytes();
        let ghost tl = text@.len() as int;
        let ghost off = utils::byte_off(l, c);
        let cursor = if let Some(cursor) = utils::char_byte_index(self.text(), self.cursor) {
            self.buffer
                .as_slice_mut()
                .copy_within(cursor..self.valid, cursor + text.len());
            cursor
        } else {
            self.valid
        };
        let ghost b1 = self.buffer.bytes();
        proof {
            assert(cursor == off);
            assert(b1.len() == b0.len());
            assert(forall|i: int| 0 <= i < off ==> b1[i] == b0[i]);
            assert(forall|i: int| off + tl <= i < self.valid + tl ==> b1[i] == b0[i - tl]);
        }
        // SAFETY: we checked that buffer contains len bytes after cursor
        // and two buffers do not overlap since mutable reference to buffer is exclusive
        unsafe {
            utils::copy_nonoverlapping(text, &mut self.buffer.as_slice_mut()[cursor..], text.len());
        }
        let ghost b2 = self.buffer.bytes();
        proof {
            assert(b2.len() == b0.len());
            assert(forall|i: int| 0 <= i < off ==> b2[i] == b0[i]);
            assert(forall|i: int| off <= i < off + tl ==> b2[i] == text@[i - off]);
            assert(forall|i: int| off + tl <= i < self.valid + tl ==> b2[i] == b0[i - tl]);
            let nb = self.buffer.bytes().subrange(0, self.valid + text@.len());
            assert(nb =~= old_bytes.subrange(0, cursor as int) + text@ + old_bytes.subrange(cursor as int, old_bytes.len() as int));
            lemma_insert_valid(old_bytes, c, text@);
        }
        let ghost tb = text@;
        let text = &self.buffer.as_slice()[cursor..cursor + text.len()];
        proof { assert(text@ =~= tb); }
        self.cursor += chars;
        self.valid += text.len();
        proof {
            assert(self.line_bytes() =~= old_bytes.subrange(0, off) + tb + old_bytes.subrange(off, old_bytes.len() as int));
        }
        //SAFETY: we just copied valid utf-8 from &str to this location
        Some(unsafe { core::str::from_utf8_unchecked(text) })
    }
}

/// cutting valid UTF-8 at the byte offset of the c-th char gives two valid halves that decode to the two halves
pub proof fn lemma_split_at_char(b: Seq<u8>, c: int)
    requires valid_utf8(b), 0 <= c <= decode_utf8(b).len()
    ensures ({ let l = decode_utf8(b); let off = utils::byte_off(l, c);
        &&& 0 <= off <= b.len()
        &&& (c == l.len() ==> off == b.len())
        &&& b.subrange(0, off) == encode_utf8(l.subrange(0, c))
        &&& b.subrange(off, b.len() as int) == encode_utf8(l.subrange(c, l.len() as int)) })
{
    let l = decode_utf8(b);
    decode_utf8_encode_utf8(b);
    assert(l =~= l.subrange(0, c) + l.subrange(c, l.len() as int));
    encode_utf8_concat(l.subrange(0, c), l.subrange(c, l.len() as int));
    let e1 = encode_utf8(l.subrange(0, c)); let e2 = encode_utf8(l.subrange(c, l.len() as int));
    assert(b == e1 + e2);
    assert(b.subrange(0, e1.len() as int) =~= e1);
    assert(b.subrange(e1.len() as int, b.len() as int) =~= e2);
    if c == l.len() { assert(l.subrange(0, c) =~= l); }
}

pub proof fn lemma_insert_valid(b: Seq<u8>, c: int, t: Seq<u8>)
    requires valid_utf8(b), valid_utf8(t), 0 <= c <= decode_utf8(b).len()
    ensures ({ let l = decode_utf8(b); let off = utils::byte_off(l, c);
        let nb = b.subrange(0, off) + t + b.subrange(off, b.len() as int);
        &&& valid_utf8(nb)
        &&& decode_utf8(nb) == l.subrange(0, c) + decode_utf8(t) + l.subrange(c, l.len() as int) })
{
    let l = decode_utf8(b); let off = utils::byte_off(l, c);
    lemma_split_at_char(b, c);
    let a1 = l.subrange(0, c); let a2 = l.subrange(c, l.len() as int); let tc = decode_utf8(t);
    decode_utf8_encode_utf8(t);
    encode_utf8_concat(a1, tc);
    encode_utf8_concat(a1 + tc, a2);
    let nb = b.subrange(0, off) + t + b.subrange(off, b.len() as int);
    assert(nb == encode_utf8(a1 + tc + a2));
    encode_utf8_valid_utf8(a1 + tc + a2);
    encode_utf8_decode_utf8(a1 + tc + a2);
}

} // verus!
fn main() {}
