use vstd::prelude::*;
verus! {
use vstd::utf8::*;
use vstd::string::StringSliceAdditionalSpecFns;
use vstd::slice::SliceIndexSpec;
pub assume_specification [core::str::from_utf8_unchecked] (b: &[u8]) -> (r: &str)
  requires valid_utf8(b@),
  ensures r@ == decode_utf8(b@), r.spec_bytes() == b@;
pub assume_specification [str::as_bytes_mut] (s: &mut str) -> (r: &mut [u8])
   ensures r@ == old(s).spec_bytes(), final(s).spec_bytes() == final(r)@;
pub assume_specification<T, I> [<[T]>::get_unchecked::<I>] (s: &[T], i: I) -> (r: &<I as core::slice::SliceIndex<[T]>>::Output)
   where I: core::slice::SliceIndex<[T]>
   requires i.in_bounds(s),
   ensures i.index_postcondition(s, r);

// ---------------- spec tokenizer (from the property statement) ----------------
pub enum TMode { Space, Normal, Quoted, Unescape }

pub struct TState {
    pub done: Seq<Seq<u8>>,      // completed tokens
    pub cur: Option<Seq<u8>>,    // token being built
    pub mode: TMode,
}

pub open spec fn t_init() -> TState { TState { done: Seq::empty(), cur: None, mode: TMode::Space } }

pub open spec fn t_finish(s: TState) -> Seq<Seq<u8>> {
    match s.cur { Some(c) => s.done.push(c), None => s.done }
}

pub open spec fn t_step(s: TState, b: u8) -> TState {
    match s.mode {
        TMode::Space =>
            if b == 0x22 { TState { done: t_finish(s), cur: Some(Seq::empty()), mode: TMode::Quoted } }
            else if b == 0x20 { s }
            else { TState { done: t_finish(s), cur: Some(seq![b]), mode: TMode::Normal } },
        TMode::Normal =>
            if b == 0x20 { TState { done: t_finish(s), cur: None, mode: TMode::Space } }
            else { TState { cur: Some(s.cur.unwrap().push(b)), ..s } },
        TMode::Quoted =>
            if b == 0x22 { TState { done: t_finish(s), cur: None, mode: TMode::Space } }
            else if b == 0x5C { TState { mode: TMode::Unescape, ..s } }
            else { TState { cur: Some(s.cur.unwrap().push(b)), ..s } },
        TMode::Unescape => TState { cur: Some(s.cur.unwrap().push(b)), mode: TMode::Quoted, ..s },
    }
}

pub open spec fn t_run(line: Seq<u8>) -> TState
    decreases line.len()
{
    if line.len() == 0 { t_init() } else { t_step(t_run(line.drop_last()), line.last()) }
}

pub open spec fn tokenize(line: Seq<u8>) -> Seq<Seq<u8>> { t_finish(t_run(line)) }

/// NUL-joined rendering of a token list (no trailing separator)
pub open spec fn join0(ts: Seq<Seq<u8>>) -> Seq<u8>
    decreases ts.len()
{
    if ts.len() == 0 { Seq::empty() }
    else if ts.len() == 1 { ts[0] }
    else { join0(ts.drop_last()) + seq![0u8] + ts.last() }
}

pub open spec fn t_wf(s: TState) -> bool {
    (s.mode is Space <==> s.cur is None)
}

proof fn lemma_run_wf(line: Seq<u8>)
    ensures t_wf(t_run(line))
    decreases line.len()
{
    if line.len() > 0 { lemma_run_wf(line.drop_last()); }
}

// appending a byte to the last token appends it to the join
proof fn lemma_join_push_last(ts: Seq<Seq<u8>>, b: u8)
    requires ts.len() > 0
    ensures join0(ts.drop_last().push(ts.last().push(b))) == join0(ts).push(b)
{
    let ts2 = ts.drop_last().push(ts.last().push(b));
    assert(ts2.drop_last() =~= ts.drop_last());
    if ts.len() == 1 {
    } else {
        assert(join0(ts2) =~= join0(ts).push(b));
    }
}
// starting a new token
proof fn lemma_join_push_token(ts: Seq<Seq<u8>>, t: Seq<u8>)
    ensures join0(ts.push(t)) == if ts.len() == 0 { t } else { join0(ts) + seq![0u8] + t }
{
    assert(ts.push(t).drop_last() =~= ts);
}

// ---------------- the real code (token.rs, with the `!empty` repair) ----------------
pub struct Tokens<'a> {
    empty: bool,
    tokens: &'a str,
}

impl<'a> Tokens<'a> {
    pub closed spec fn raw(&self) -> Seq<u8> { self.tokens.spec_bytes() }
    pub closed spec fn is_empty_spec(&self) -> bool { self.empty }

    pub fn new(input: &'a mut str) -> (r: Self)
        requires forall|i: int| 0 <= i < old(input).spec_bytes().len() ==> old(input).spec_bytes()[i] != 0,
        ensures
            r.is_empty_spec() == (tokenize(old(input).spec_bytes()).len() == 0),
            r.raw() == join0(tokenize(old(input).spec_bytes())),
    {
        // SAFETY: bytes are modified correctly, so they remain utf8
        let bytes = unsafe { input.as_bytes_mut() };
        let ghost line = bytes@;

        let mut insert = 0;
        let mut empty = true;

        enum Mode {
            Space,
            Normal,
            Quoted,
            Unescape,
        }

        let mut mode = Mode::Space;
        proof { assert(line.subrange(0, 0) =~= Seq::<u8>::empty()); }

        for cursor_pos in it: 0..bytes.len()
            invariant
                it.iter.end == line.len(),
                bytes@.len() == line.len(),
                forall|i: int| 0 <= i < line.len() ==> line[i] != 0,
                forall|i: int| cursor_pos <= i < line.len() ==> bytes@[i] == line[i],
                insert <= cursor_pos,
                ((mode is Space && !empty) || mode is Quoted || mode is Unescape) ==> insert < cursor_pos,
                ({ let st = t_run(line.subrange(0, cursor_pos as int));
                   &&& (mode is Space <==> st.mode is Space) &&& (mode is Normal <==> st.mode is Normal)
                   &&& (mode is Quoted <==> st.mode is Quoted) &&& (mode is Unescape <==> st.mode is Unescape)
                   &&& empty == (t_finish(st).len() == 0)
                   &&& bytes@.subrange(0, insert as int) == join0(t_finish(st)) }),
        {
            let byte = bytes[cursor_pos];
            proof {
                let pre = line.subrange(0, cursor_pos as int);
                let nxt = line.subrange(0, cursor_pos + 1);
                assert(nxt.drop_last() =~= pre);
                assert(nxt.last() == byte);
                lemma_run_wf(pre);
                let st = t_run(pre);
                let ts = t_finish(st);
                if st.cur is Some { lemma_join_push_last(ts, byte); assert(ts.drop_last() =~= st.done); }
                lemma_join_push_token(ts, seq![byte]);
                lemma_join_push_token(ts, Seq::<u8>::empty());
            }
            match mode {
                Mode::Space => {
                    if byte == b'"' {
                        mode = Mode::Quoted;
                        if !empty {
                            bytes[insert] = 0;
                            insert += 1;
                        }
                        empty = false;
                    } else if byte != b' ' && byte != 0 {
                        mode = Mode::Normal;
                        if !empty {
                            bytes[insert] = 0;
                            insert += 1;
                        }
                        empty = false;
                        bytes[insert] = byte;
                        insert += 1;
                    }
                }
                Mode::Normal => {
                    if byte == b' ' || byte == 0 {
                        mode = Mode::Space;
                    } else {
                        bytes[insert] = byte;
                        insert += 1;
                    }
                }
                Mode::Quoted => {
                    if byte == b'"' || byte == 0 {
                        mode = Mode::Space;
                    } else if byte == b'\\' {
                        mode = Mode::Unescape;
                    } else {
                        bytes[insert] = byte;
                        insert += 1;
                    }
                }
                Mode::Unescape => {
                    bytes[insert] = byte;
                    insert += 1;
                    mode = Mode::Quoted;
                }
            }
            proof {
                let st2 = t_run(line.subrange(0, cursor_pos + 1));
                assert(bytes@.subrange(0, insert as int) =~= join0(t_finish(st2)));
            }
        }

        proof {
            assert(line.subrange(0, line.len() as int) =~= line);
            assume(valid_utf8(bytes@.subrange(0, insert as int)));   // C02 lemma, out of scope of this probe
        }
        // SAFETY: bytes are still a valid utf8 sequence
        // insert is inside bytes slice
        let tokens = unsafe { core::str::from_utf8_unchecked(bytes.get_unchecked(..insert)) };
        Self { empty, tokens }
    }
}

} // verus!
fn main() {}
