use vstd::prelude::*;
verus! {
pub assume_specification [core::str::from_utf8_unchecked] (b: &[u8]) -> (r: &str) requires vstd::utf8::valid_utf8(b@), ensures r@ == vstd::utf8::decode_utf8(b@);
pub trait ErrorT: Sized {}
pub trait Write {
    type Error: ErrorT;
    spec fn log(&self) -> Seq<u8>;
    fn write_all(&mut self, buf: &[u8]) -> (r: Result<(), Self::Error>)
        ensures r is Ok ==> final(self).log() == old(self).log() + buf@,
                r is Err ==> old(self).log().is_prefix_of(final(self).log());
    fn flush(&mut self) -> (r: Result<(), Self::Error>)
        ensures final(self).log() == old(self).log();
}
#[verifier::reject_recursive_types(E)]
pub struct Writer<'a, W: Write<Error = E>, E: ErrorT> {
    last_bytes: [u8; 2],
    dirty: bool,
    writer: &'a mut W,
}
impl<'a, W: Write<Error = E>, E: ErrorT> Writer<'a, W, E> {
    pub closed spec fn out(&self) -> Seq<u8> { self.writer.log() }
    #[verifier::prophetic]
    pub closed spec fn fin(&self) -> Seq<u8> { final(self.writer).log() }
    pub closed spec fn is_dirty_spec(&self) -> bool { self.dirty }
    pub fn new(writer: &'a mut W) -> (r: Self) 
       ensures r.out() == old(writer).log(), !r.is_dirty_spec(), r.fin() == final(writer).log()
    {
        Self {
            last_bytes: [0; 2],
            dirty: false,
            writer,
        }
    }
    pub fn write_raw(&mut self, text: &[u8]) -> (r: Result<(), E>) 
       ensures r is Ok ==> final(self).out() == old(self).out() + text@, final(self).fin() == old(self).fin()
    {
        self.writer.write_all(text)?;
        self.dirty = true;
        Ok(())
    }
}
pub fn user<W: Write<Error = E>, E: ErrorT>(w: &mut W) -> (r: Result<(), E>)
   ensures r is Ok ==> final(w).log() == old(w).log() + seq![1u8]
{
    let mut cw = Writer::new(w);
    cw.write_raw(&[1u8])?;
    let d = cw.dirty;
    Ok(())
}
}
fn main() {}
