use vstd::prelude::*;
verus! {
use vstd::utf8::*;
use vstd::string::StringSliceAdditionalSpecFns;
pub assume_specification [core::str::from_utf8_unchecked] (b: &[u8]) -> (r: &str)
  requires valid_utf8(b@),
  ensures r@ == decode_utf8(b@), r.spec_bytes() == b@;

pub trait Buffer {
    spec fn bytes(&self) -> Seq<u8>;
    fn as_slice(&self) -> (r: &[u8])
        ensures r@ == self.bytes();
    fn as_slice_mut(&mut self) -> (r: &mut [u8])
        ensures r@ == old(self).bytes(), final(self).bytes() == final(r)@;
}

pub mod shim {
    use vstd::prelude::*;
    verus!{
    /// `s.iter().rev().position(|b| b == &v)`: distance from the end of the last occurrence of v
    #[verifier::external_body]
    pub fn rposition_eq(s: &[u8], v: u8) -> (r: Option<usize>)
        ensures match r {
            Some(p) => p < s@.len() && s@[s@.len() - 1 - p] == v && forall|j: int| s@.len() - 1 - p < j < s@.len() ==> s@[j] != v,
            None => forall|j: int| 0 <= j < s@.len() ==> s@[j] != v,
        }
    { s.iter().rev().position(|b| b == &v) }
    }
}

// ---------- abstract history ----------
pub open spec fn flat(es: Seq<Seq<u8>>) -> Seq<u8>
    decreases es.len()
{
    if es.len() == 0 { Seq::empty() } else { flat(es.drop_last()) + es.last() + seq![0u8] }
}
pub open spec fn start(es: Seq<Seq<u8>>, i: int) -> int
    decreases i
{
    if i <= 0 { 0 } else { start(es, i - 1) + es[i - 1].len() + 1 }
}
pub open spec fn entry_ok(e: Seq<u8>) -> bool {
    e.len() > 0 && valid_utf8(e) && forall|k: int| 0 <= k < e.len() ==> e[k] != 0
}
pub open spec fn entries_ok(es: Seq<Seq<u8>>) -> bool { forall|i: int| 0 <= i < es.len() ==> entry_ok(#[trigger] es[i]) }

proof fn lemma_start_lower(es: Seq<Seq<u8>>, i: int)
    requires 0 <= i <= es.len(), entries_ok(es)
    ensures start(es, i) >= i
    decreases i
{
    if i > 0 { lemma_start_lower(es, i - 1); assert(entry_ok(es[i - 1])); }
}
proof fn lemma_start_nonneg(es: Seq<Seq<u8>>, i: int)
    requires 0 <= i <= es.len()
    ensures start(es, i) >= 0
    decreases i
{
    if i > 0 { lemma_start_nonneg(es, i - 1); }
}
proof fn lemma_start_mono(es: Seq<Seq<u8>>, i: int, j: int)
    requires 0 <= i <= j <= es.len()
    ensures start(es, i) <= start(es, j), i < j ==> start(es, i) + es[i].len() + 1 <= start(es, j)
    decreases j - i
{
    if i < j { lemma_start_mono(es, i, j - 1); if i < j - 1 { } }
}
proof fn lemma_start_prefix(es: Seq<Seq<u8>>, i: int)
    requires 0 <= i < es.len()
    ensures start(es.drop_last(), i) == start(es, i)
    decreases i
{
    if i > 0 { lemma_start_prefix(es, i - 1); }
}
proof fn lemma_flat_len(es: Seq<Seq<u8>>)
    ensures flat(es).len() == start(es, es.len() as int)
    decreases es.len()
{
    if es.len() > 0 {
        lemma_flat_len(es.drop_last());
        if es.len() > 1 { lemma_start_prefix(es, es.len() - 1); }
        assert(start(es.drop_last(), es.len() - 1) == start(es, es.len() - 1)) by {
            if es.len() - 1 > 0 { lemma_start_prefix_full(es); }
        }
    }
}
proof fn lemma_start_prefix_full(es: Seq<Seq<u8>>)
    requires es.len() > 0
    ensures start(es.drop_last(), es.len() - 1) == start(es, es.len() - 1)
{
    lemma_start_eq(es.drop_last(), es, es.len() - 1);
}
proof fn lemma_start_eq(a: Seq<Seq<u8>>, b: Seq<Seq<u8>>, i: int)
    requires 0 <= i <= a.len(), i <= b.len(), forall|k: int| 0 <= k < i ==> a[k] == b[k]
    ensures start(a, i) == start(b, i)
    decreases i
{
    if i > 0 { lemma_start_eq(a, b, i - 1); }
}
/// entry i occupies [start(i), start(i)+len) in flat(es) and is followed by NUL
proof fn lemma_flat_entry(es: Seq<Seq<u8>>, i: int)
    requires 0 <= i < es.len()
    ensures
        0 <= start(es, i),
        start(es, i) + es[i].len() + 1 <= flat(es).len(),
        flat(es).subrange(start(es, i), start(es, i) + es[i].len()) == es[i],
        flat(es)[start(es, i) + es[i].len()] == 0,
    decreases es.len()
{
    let n = es.len() as int;
    lemma_start_nonneg(es, i);
    lemma_flat_len(es);
    lemma_flat_len(es.drop_last());
    lemma_start_prefix_full(es);
    if i == n - 1 {
        assert(flat(es).subrange(start(es, i), start(es, i) + es[i].len()) =~= es[i]);
    } else {
        lemma_flat_entry(es.drop_last(), i);
        lemma_start_eq(es.drop_last(), es, i);
        lemma_start_mono(es, i, n - 1);
        assert(flat(es).subrange(start(es, i), start(es, i) + es[i].len()) =~= flat(es.drop_last()).subrange(start(es, i), start(es, i) + es[i].len()));
    }
}

// ---------- the real code (history.rs: struct, new, next_older) ----------
pub struct History<B: Buffer> {
    buffer: B,
    cursor: Option<usize>,
    used: usize,
}

impl<B: Buffer> History<B> {
    pub closed spec fn rep(&self, es: Seq<Seq<u8>>, nav: Option<int>) -> bool {
        &&& self.used <= self.buffer.bytes().len()
        &&& entries_ok(es)
        &&& self.buffer.bytes().subrange(0, self.used as int) == flat(es)
        &&& match nav { Some(i) => 0 <= i < es.len() && self.cursor == Some(start(es, i) as usize), None => self.cursor is None }
    }

    /// Return next element from history, that is older, than currently selected.
    pub fn next_older(&mut self, Ghost(es): Ghost<Seq<Seq<u8>>>, Ghost(nav): Ghost<Option<int>>) -> (r: Option<&str>)
        requires old(self).rep(es, nav)
        ensures
            ({ let n = es.len() as int;
               let target: Option<int> = match nav { Some(i) => if i > 0 { Some(i - 1) } else { None }, None => if n > 0 { Some(n - 1) } else { None } };
               match target {
                   Some(t) => r is Some && r.unwrap().spec_bytes() == es[t] && final(self).rep(es, Some(t)),
                   None => r is None && final(self).rep(es, nav),
               } }),
    {
        proof {
            lemma_flat_len(es);
            lemma_start_lower(es, es.len() as int);
            if nav is Some { lemma_start_lower(es, nav.unwrap()); }
            assert(self.buffer.bytes().subrange(0, self.used as int).len() == self.used);
            assert(self.used == start(es, es.len() as int));
            assert(start(es, 0) == 0);
            if nav is Some { lemma_start_mono(es, nav.unwrap(), es.len() as int); }
            if nav is Some && self.cursor == Some(0usize) { assert(nav.unwrap() == 0); }
            if nav is None && self.used == 0 { assert(es.len() == 0); }
            assert(nav is None ==> self.cursor is None);
            assert(nav is Some ==> self.cursor is Some);
        }
        let cursor = match self.cursor {
            Some(cursor) => if cursor > 0 { cursor } else { return None },
            None => if self.used > 0 { self.used } else { return None },
        };
        let ghost t: int = match nav { Some(i) => i - 1, None => es.len() - 1 };
        proof {
            if nav is Some { if nav.unwrap() == 0 { assert(start(es, 0) == 0); } lemma_start_mono(es, 0, nav.unwrap()); }
            assert(0 <= t < es.len());
            lemma_flat_entry(es, t);
            lemma_start_mono(es, t, t + 1);
            assert(cursor == start(es, t + 1));
            if t > 0 { lemma_flat_entry(es, t - 1); }
        }

        let new_cursor = match shim::rposition_eq(&self.buffer.as_slice()[..cursor - 1], 0) {
            Some(pos) => cursor - 1 - pos,
            None => 0,
        };
        proof {
            let fb = flat(es);
            let pre = self.buffer.bytes().subrange(0, cursor - 1);
            assert(forall|j: int| 0 <= j < cursor - 1 ==> pre[j] == fb[j]);
            assert(entry_ok(es[t]));
            let sub = fb.subrange(start(es, t), start(es, t) + es[t].len());
            assert(forall|k: int| 0 <= k < es[t].len() ==> #[trigger] sub[k] == fb[start(es, t) + k]);
            assert(sub == es[t]);
            assert(forall|k: int| 0 <= k < es[t].len() ==> #[trigger] sub[k] != 0);
            assert forall|j: int| start(es, t) <= j < start(es, t) + es[t].len() implies #[trigger] fb[j] != 0 by {
                let k = j - start(es, t);
                assert(sub[k] == fb[start(es, t) + k]);
            }
            assert(new_cursor == start(es, t));
        }
        proof {
            assert(self.buffer.bytes().subrange(new_cursor as int, cursor - 1) =~= es[t]);
        }
        let element = unsafe {
            core::str::from_utf8_unchecked(&self.buffer.as_slice()[new_cursor..cursor - 1])
        };
        self.cursor = Some(new_cursor);
        Some(element)
    }
}

} // verus!
fn main() {}
