use vstd::prelude::*;
verus! {
pub assume_specification [core::str::from_utf8_unchecked] (b: &[u8]) -> (r: &str) requires vstd::utf8::valid_utf8(b@), ensures r@ == vstd::utf8::decode_utf8(b@);
pub struct H { cursor: Option<usize>, used: usize }
impl H {
    pub closed spec fn c(&self) -> Option<usize> { self.cursor }
    pub fn f1(&mut self) -> (r: Option<usize>)
      ensures final(self).c() == old(self).c() || r is Some
    {
        let sc = self.cursor;
        let cursor = match sc {
            Some(cursor) if cursor > 0 => cursor,
            None if self.used > 0 => self.used,
            _ => return None,
        };
        self.cursor = Some(cursor - 1);
        Some(cursor)
    }
    pub fn f4(&mut self) -> (r: Option<usize>)
      ensures final(self).c() == old(self).c() || r is Some
    {
        let cursor = match self.cursor {
            Some(cursor) if cursor > 0 => cursor,
            _ => return None,
        };
        self.cursor = Some(cursor - 1);
        Some(cursor)
    }
    pub fn f5(&mut self) -> (r: Option<usize>)
      ensures final(self).c() == old(self).c() || r is Some
    {
        let cursor = match self.cursor {
            Some(cursor) => cursor,
            _ => return None,
        };
        self.cursor = Some(cursor);
        Some(cursor)
    }
}
}
fn main() {}
